import sys
from simtax import cli
sys.exit(cli.main())
