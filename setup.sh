#!/bin/bash
# Nothing to build or fetch: verify that the repo imports from the working tree and create output dirs.
set -e
cd "$(dirname "$0")"
mkdir -p evidence replays
PYTHONDONTWRITEBYTECODE=1 /venv/bin/python -B -W ignore -c "
import sys; sys.path.insert(0, '/verif')
from simtax import core
hb = core.import_habutax()
print('habutax', hb.__version__, 'from', hb.__file__)
"
