"""simtax - deterministic simulation of habutax solve sessions with fault injection.

See /verif/DESIGN.md.  Every module here is harness code; the system under test is
imported from /repo's working tree (see core.import_habutax)."""
