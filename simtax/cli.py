"""./check <ID> [--tier quick|thorough] [--replay FILE]

exit 0: property held on everything explored (KNOWN-FINDING lines allowed)
exit 1: VIOLATION property=<ID> replay=<path> printed
exit 2: harness error (seam missing, run did not finish, internal exception) - never reported
        as success and never as a violation."""
import argparse
import importlib
import json
import os
import sys
import time
import traceback

from . import core


def load_prop(pid):
    return importlib.import_module(f'simtax.props.{pid.lower()}')


def main(argv=None):
    ap = argparse.ArgumentParser()
    ap.add_argument('prop')
    ap.add_argument('--tier', default=os.environ.get('VERIF_TIER') or 'quick', choices=['quick', 'thorough'])
    ap.add_argument('--replay')
    ap.add_argument('--seed', type=int, default=None)
    ap.add_argument('--scale', type=float, default=float(os.environ.get('VERIF_SCALE', '1')))
    ap.add_argument('--no-evidence', action='store_true')
    ap.add_argument('--no-shrink', action='store_true')
    args = ap.parse_args(argv)
    pid = args.prop.upper()
    try:
        mod = load_prop(pid)
    except core.HarnessError as e:
        print(f'HARNESS-ERROR: {e}')
        return 2
    from . import simrun
    try:
        if args.replay:
            return replay(mod, pid, args.replay)
        return explore(mod, pid, args)
    finally:
        simrun.cleanup_scratch()


def replay(mod, pid, path):
    with open(path) as f:
        rec = json.load(f)
    try:
        findings = mod.replay(rec)
    except (core.RunTimeout, core.BudgetExceeded) as e:
        findings = mod.on_unfinished(rec, e) if hasattr(mod, 'on_unfinished') else None
        if findings is None:
            print(f'HARNESS-ERROR: replay did not finish: {type(e).__name__}')
            return 2
    except core.HarnessError as e:
        print(f'HARNESS-ERROR: {e}')
        return 2
    same = [f for f in findings if f.get('oracle') == rec.get('oracle')]
    if same or findings:
        for f in (same or findings)[:3]:
            print(f"  {f['oracle']} [{f['key']}]: {f['msg']}")
        print(f'VIOLATION property={pid} replay={path}')
        return 1
    print(f'replay of {path}: no violation')
    return 0


def explore(mod, pid, args):
    t0 = time.time()
    base = args.seed if args.seed is not None else core.base_seed()
    tier = args.tier
    plan = [(e, max(1, int(n * args.scale))) for e, n in mod.PLAN[tier]]
    print(f'{pid} tier={tier} VERIF_SEED={base} plan={plan} workers={core.n_workers()}', flush=True)
    deadline = mod.DEADLINE[tier] if hasattr(mod, 'DEADLINE') else (240 if tier == 'quick' else 3000)
    try:
        accs, truncated = core.run_plan(mod.__name__, plan, base, tier, deadline_s=deadline)
    except core.HarnessError as e:
        print(f'HARNESS-ERROR: {e}')
        return 2
    wall_runs = time.time() - t0
    known = core.load_known_findings()
    total = core.Acc()
    for a in accs.values():
        total.merge(a)

    # violations: dedupe by (oracle, key), minimise a few, write replay files
    seen = {}
    for v in total.violations:
        seen.setdefault((v['oracle'], v['key']), v)
    exit_code = 0
    n_reported = 0
    for (oracle, key), v in sorted(seen.items()):
        kf = core.match_known(v, known)
        if kf is not None:
            print(f"KNOWN-FINDING: property={pid} {kf.get('what', v['msg'])}")
            continue
        if n_reported < 3 and not args.no_shrink and hasattr(mod, 'minimise'):
            try:
                v = mod.minimise(v)
            except (Exception, core.HarnessError, core.RunTimeout, core.BudgetExceeded):
                print('  (minimisation failed: ' + traceback.format_exc(limit=2).strip().split('\n')[-1] + ')')
        path = core.write_replay(v)
        print(f"  {v['oracle']} [{v['key']}] seed={v.get('seed')} engine={v.get('engine')}: {v['msg'][:400]}")
        print(f'VIOLATION property={pid} replay={path}', flush=True)
        n_reported += 1
        exit_code = 1
    for e in total.errors:
        print('HARNESS-ERROR: ' + e.strip().replace('\n', '\n    '))
    if truncated:
        print('HARNESS-ERROR: batch deadline passed before the plan was finished')
    if (total.errors or truncated) and exit_code == 0:
        exit_code = 2

    # evidence
    wall = time.time() - t0
    cov = mod.coverage(accs, total)
    cov.setdefault('evaluations', total.runs)
    cov['runs_per_engine'] = {e: a.runs for e, a in accs.items()}
    cov['logical_steps'] = total.steps
    cov['runs_per_hour'] = int(total.runs / max(wall_runs, 1e-6) * 3600)
    cov['seeds'] = {'VERIF_SEED': base, 'derivation': 'run n of engine e uses blake2b(run, VERIF_SEED, e, n)'}
    cov['fired'] = {k: v for k, v in sorted(total.counters.items()) if k.startswith('fault:')}
    cov['outcomes'] = {k: v for k, v in sorted(total.counters.items()) if k.startswith('outcome:')}
    cov['probes'] = {k: v for k, v in sorted(total.counters.items()) if k.startswith('probe:')}
    cov['seams'] = {k: v for k, v in sorted(total.counters.items()) if k.startswith('seam:')}
    cov['distinct'] = {k: len(s) for k, s in sorted(total.sets.items())}
    cov['simulated_time'] = 'none: habutax has no clock; progress is counted in logical steps (line attempts + prompts)'
    cov['harness_errors'] = total.counters.get('harness_errors', 0)
    cov['repo_head'] = core.git_head(core.REPO)
    zero = [k for k in getattr(mod, 'PROBES', []) if total.counters.get('probe:' + k, 0) == 0]
    if zero:
        cov['probes_at_zero'] = zero
        print(f'warning: probes never hit: {zero}')
    ev = {
        'property_id': pid, 'tier': tier, 'seed': base, 'level': mod.LEVEL, 'coverage': cov,
        'assumptions': list(getattr(mod, 'ASSUMPTIONS', [])), 'wall_s': round(wall, 2),
        'violations': sum(1 for k in seen if core.match_known(seen[k], known) is None),
    }
    if not args.no_evidence:
        try:
            p = core.write_evidence(pid, ev)
        except core.HarnessError as e:
            print(f'HARNESS-ERROR: evidence not valid: {e}')
            return exit_code or 2
        print(f'evidence: {p}')
    if core.TRACE_ON:
        print(f'TRACE-DIGEST {pid} {core.digest(sorted(total.sets.get("rundigests", ())))} runs={total.runs}')
    print(f'{pid}: runs={total.runs} steps={total.steps} distinct_nontrivial={cov.get("distinct_nontrivial")} '
          f'violations={ev["violations"]} wall={wall:.1f}s exit={exit_code}')
    return exit_code


if __name__ == '__main__':
    sys.exit(main())
