"""Seeds, sub-streams, digests, watchdogs, pool runner, replay files, evidence writer.

Nothing in here draws randomness except through Rng objects derived from one integer
(VERIF_SEED), and nothing reads a clock except to measure wall time for the evidence
file and to stop starting new work when a batch deadline has passed (the set of runs
executed for a given tier is fixed by run counts, not by the clock)."""
import collections
import concurrent.futures
import contextlib
import faulthandler
import hashlib
import json
import multiprocessing
import os
import random
import signal
import sys
import time
import traceback

VERIF = os.path.dirname(os.path.dirname(os.path.abspath(__file__)))
REPO = os.environ.get('HABUTAX_REPO', '/repo')
GUARD = 'HABUTAX_VERIF'


# ----------------------------------------------------------------------------------
# importing the system under test from the working tree
# ----------------------------------------------------------------------------------
_habutax = None


def import_habutax():
    """Import habutax from REPO's working tree (never from a stale install or pycache)."""
    global _habutax
    if _habutax is not None:
        return _habutax
    import warnings
    warnings.filterwarnings('ignore', category=SyntaxWarning)
    if sys.path[0] != REPO:
        sys.path.insert(0, REPO)
    import habutax  # noqa
    here = os.path.realpath(os.path.dirname(habutax.__file__))
    want = os.path.realpath(os.path.join(REPO, 'habutax'))
    if here != want:
        raise HarnessError(f'habutax imported from {here}, expected {want}')
    _habutax = habutax
    import habutax.forms       # noqa  (pulls in every year's form modules)
    import habutax.pdf_filler  # noqa
    _snapshot_code_state()
    return habutax


# ----------------------------------------------------------------------------------
# what habutax's own modules and classes remember between calls
# ----------------------------------------------------------------------------------
# Module-level and class-level containers (dict / list / set) of habutax as they are right after import, before any
# harness or solver code has run.  Every simulated case starts from this state and every reference computation is made in
# it, so that (a) a case behaves in a worker that has run thousands of cases exactly as in the fresh process that replays
# it, and (b) anything the code under test remembers from one call to the next (a look-up cache, a memo of verdicts) is
# history that a case has to contain itself (an earlier return / an earlier solve in the same case) and that the reference
# does not share.
_CODE_STATE = None
_SKIP_MODULES = ('habutax.forms',)          # the registry of years: the harness registers its generated year there itself


def _snapshot_code_state():
    global _CODE_STATE
    import types as _types
    snap = []
    seen = set()

    def take(v):
        if isinstance(v, (dict, list, set)) and id(v) not in seen:
            seen.add(id(v))
            snap.append((v, type(v)(v)))

    for name in sorted(sys.modules):
        if not (name == 'habutax' or name.startswith('habutax.')) or name in _SKIP_MODULES:
            continue
        mod = sys.modules[name]
        if not isinstance(mod, _types.ModuleType):
            continue
        for k, v in list(vars(mod).items()):
            if k.startswith('__'):
                continue
            take(v)
            if isinstance(v, type) and getattr(v, '__module__', None) == name:
                for k2, v2 in list(vars(v).items()):
                    if not k2.startswith('__'):
                        take(v2)
    _CODE_STATE = snap


def reset_code_state():
    """put habutax's module- and class-level containers back to their import-time content; containers that appeared later
    (a cache a changed tree creates lazily with setattr) are not known here.  -> number of containers that had changed"""
    if _CODE_STATE is None:
        return 0
    n = 0
    for obj, saved in _CODE_STATE:
        if obj != saved:
            n += 1
            if isinstance(obj, list):
                obj[:] = saved
            else:
                obj.clear()
                obj.update(saved)
    for name in list(sys.modules):
        if name.startswith('habutax.') and name not in _SKIP_MODULES:
            mod = sys.modules[name]
            for v in list(vars(mod).values()):
                cc = getattr(v, 'cache_clear', None)
                if callable(cc) and not isinstance(v, type):
                    try:
                        cc()
                    except Exception:
                        pass
    return n


# ----------------------------------------------------------------------------------
# exceptions
# ----------------------------------------------------------------------------------
class HarnessError(BaseException):
    """The harness (not habutax) is broken or a seam is missing: exit 2, never VIOLATION."""


class BudgetExceeded(BaseException):
    """Logical step budget of one run exhausted (BaseException: `except Exception` in the
    system under test must not swallow it)."""


class RunTimeout(BaseException):
    """CPU-time alarm of one run fired."""


# ----------------------------------------------------------------------------------
# one integer decides everything
# ----------------------------------------------------------------------------------
def h64(*parts):
    m = hashlib.blake2b(digest_size=8)
    for p in parts:
        m.update(repr(p).encode('utf-8', 'backslashreplace'))
        m.update(b'\x00')
    return int.from_bytes(m.digest(), 'big')


class Rng(random.Random):
    """random.Random seeded from an int; .sub(purpose) gives an independent stream so that
    adding a draw in one place never shifts the draws of another."""

    def __init__(self, seed):
        self._seed_int = int(seed)
        super().__init__(self._seed_int)

    def sub(self, *purpose):
        return Rng(h64(self._seed_int, *purpose))

    def chance(self, p):
        return self.random() < p

    def pick(self, seq):
        return seq[self.randrange(len(seq))]

    def weighted(self, pairs):
        """pairs: [(item, weight)]"""
        tot = sum(w for _, w in pairs)
        x = self.random() * tot
        for item, w in pairs:
            x -= w
            if x < 0:
                return item
        return pairs[-1][0]


def base_seed():
    try:
        return int(os.environ.get('VERIF_SEED', '0'))
    except ValueError:
        return h64(os.environ.get('VERIF_SEED'))


def run_seed(base, engine, n):
    return h64('run', base, engine, n)


def canon(obj):
    return json.dumps(obj, sort_keys=True, separators=(',', ':'), default=_json_default)


def _json_default(o):
    if isinstance(o, (set, frozenset)):
        return sorted(o, key=repr)
    if isinstance(o, tuple):
        return list(o)
    if isinstance(o, bytes):
        return o.decode('latin-1')
    return repr(o)


def digest(obj):
    return hashlib.blake2b(canon(obj).encode(), digest_size=8).hexdigest()


def digest_int(obj):
    return int(digest(obj), 16)


# ----------------------------------------------------------------------------------
# value normalisation: strict about type (bool is not int, int is not float)
# ----------------------------------------------------------------------------------
def norm(v):
    import enum as _enum
    if v is None:
        return ['n']
    t = type(v)
    if t is bool:
        return ['b', v]
    if t is int:
        return ['i', v]
    if t is float:
        return ['f', repr(v)]
    if t is str:
        return ['s', v]
    if isinstance(v, _enum.Enum):
        return ['e', type(v).__name__, v.name]
    if hasattr(v, 'enum_name') and hasattr(v, 'name'):      # refmodel.EV
        return ['e', v.enum_name, v.name]
    return ['o', t.__name__, repr(v)]


# ----------------------------------------------------------------------------------
# watchdogs
# ----------------------------------------------------------------------------------
def _on_vtalrm(signum, frame):
    raise RunTimeout('cpu alarm')


@contextlib.contextmanager
def cpu_alarm(seconds):
    """Raise RunTimeout in the main thread after `seconds` of *CPU* time of this process
    (machine load cannot trip it)."""
    old = signal.signal(signal.SIGVTALRM, _on_vtalrm)
    # repeating: should one delivery be swallowed somewhere, the next one comes half a second later
    signal.setitimer(signal.ITIMER_VIRTUAL, seconds, 0.5)
    try:
        yield
    finally:
        signal.setitimer(signal.ITIMER_VIRTUAL, 0)
        signal.signal(signal.SIGVTALRM, old)


# ----------------------------------------------------------------------------------
# optional trace digest (determinism self-test): every event of every run is hashed
# ----------------------------------------------------------------------------------
TRACE = None
TRACE_ON = os.environ.get('VERIF_TRACE') == '1'


def trace_begin():
    global TRACE
    TRACE = hashlib.blake2b(digest_size=8) if TRACE_ON else None


def trace_feed(ev):
    if TRACE is not None:
        TRACE.update(repr(ev).encode('utf-8', 'backslashreplace'))


def trace_end():
    global TRACE
    d = TRACE.hexdigest() if TRACE is not None else None
    TRACE = None
    return d


# ----------------------------------------------------------------------------------
# per-batch result accumulation
# ----------------------------------------------------------------------------------
class Acc(object):
    """What a batch of runs reports back.  Mergeable."""
    MAX_SAMPLES = 6
    MAX_VIOL = 12
    MAX_SET = 400000

    def __init__(self):
        self.runs = 0
        self.steps = 0
        self.counters = collections.Counter()   # fault kinds fired, outcome classes, probes
        self.sets = collections.defaultdict(set)  # named sets of 64-bit digests
        self.samples = []
        self.violations = []
        self.errors = []                         # harness errors (strings)

    def count(self, key, n=1):
        self.counters[key] += n

    def add(self, setname, obj):
        s = self.sets[setname]
        if len(s) < self.MAX_SET:
            s.add(obj if isinstance(obj, int) else digest_int(obj))

    def sample(self, obj):
        if len(self.samples) < self.MAX_SAMPLES:
            self.samples.append(obj)

    def violation(self, v):
        if len(self.violations) < self.MAX_VIOL:
            self.violations.append(v)
        self.counters['violations'] += 1

    def error(self, msg):
        if len(self.errors) < 8:
            self.errors.append(msg)
        self.counters['harness_errors'] += 1

    def merge(self, other):
        self.runs += other.runs
        self.steps += other.steps
        self.counters.update(other.counters)
        for k, s in other.sets.items():
            mine = self.sets[k]
            if len(mine) < self.MAX_SET:
                mine |= s
        for s in other.samples:
            self.sample(s)
        for v in other.violations:
            if len(self.violations) < self.MAX_VIOL:
                self.violations.append(v)
        for e in other.errors:
            if len(self.errors) < 8:
                self.errors.append(e)
        return self


# ----------------------------------------------------------------------------------
# pool runner
# ----------------------------------------------------------------------------------
_UNFINISHED = 0


def _worker(job):
    modname, engine, seeds, tier = job
    faulthandler.enable()
    import importlib
    mod = importlib.import_module(modname)
    acc = Acc()
    global _UNFINISHED
    for s in seeds:
        one = Acc()
        if _UNFINISHED >= 3:
            # circuit breaker: a tree on which runs do not terminate would otherwise cost cpu_alarm seconds per run
            one.error(f'{engine} seed={s}: skipped after {_UNFINISHED} runs in this worker did not finish')
            one.runs += 1
            acc.merge(one)
            continue
        trace_begin()
        reset_code_state()
        try:
            mod.run_one(engine, s, one, tier)
        except (RunTimeout, BudgetExceeded) as e:
            _UNFINISHED += 1
            one.error(f'{engine} seed={s}: run did not finish: {type(e).__name__} {e}')
        except HarnessError as e:
            one.error(f'{engine} seed={s}: {e}')
        except Exception:
            one.error(f'{engine} seed={s}: harness exception\n' + traceback.format_exc(limit=8))
        one.runs += 1
        if TRACE_ON:
            # event trace of the run + everything the run reported
            d = trace_end()
            one.sets['rundigests'].add(h64(engine, s, d, one.steps, [(v.get('oracle'), v.get('key')) for v in one.violations],
                                           sorted(one.counters.items()), sorted((k, sorted(v)) for k, v in one.sets.items())))
        acc.merge(one)
    return acc


def n_workers():
    try:
        w = int(os.environ.get('VERIF_WORKERS', '0'))
    except ValueError:
        w = 0
    return w if w > 0 else min(16, os.cpu_count() or 1)


def run_plan(modname, plan, base, tier, deadline_s=None, chunk=None):
    """plan: list of (engine, n_runs).  Runs every (engine, n) with seed run_seed(base, engine, n).
    Returns {engine: Acc}.  The set of runs is fixed by the plan; `deadline_s` only stops
    *submitting* new chunks (reported as truncated, which makes the check exit 2)."""
    workers = n_workers()
    jobs = []
    for engine, n in plan:
        # engines named *_enum enumerate a finite space: they get the index itself, not a derived seed
        seeds = list(range(n)) if engine.endswith('_enum') else [run_seed(base, engine, k) for k in range(n)]
        c = chunk or max(1, min(2000, (n + workers * 4 - 1) // (workers * 4)))
        for a in range(0, n, c):
            jobs.append((modname, engine, seeds[a:a + c], tier))
    out = {engine: Acc() for engine, _ in plan}
    t0 = time.time()
    truncated = False
    if workers == 1:
        for j in jobs:
            if deadline_s and time.time() - t0 > deadline_s:
                truncated = True
                break
            out[j[1]].merge(_worker(j))
        return out, truncated
    ctx = multiprocessing.get_context('fork')
    with concurrent.futures.ProcessPoolExecutor(max_workers=workers, mp_context=ctx) as ex:
        pending = {}
        it = iter(jobs)
        exhausted = False
        while True:
            while not exhausted and len(pending) < workers * 2:
                if deadline_s and time.time() - t0 > deadline_s:
                    truncated = True
                    exhausted = True
                    break
                try:
                    j = next(it)
                except StopIteration:
                    exhausted = True
                    break
                pending[ex.submit(_worker, j)] = j
            if not pending:
                break
            done, _ = concurrent.futures.wait(pending, return_when=concurrent.futures.FIRST_COMPLETED)
            for f in done:
                j = pending.pop(f)
                try:
                    out[j[1]].merge(f.result())
                except BaseException as e:  # worker died
                    out[j[1]].error(f'worker failed on engine {j[1]}: {type(e).__name__}: {e}')
    return out, truncated


# ----------------------------------------------------------------------------------
# known findings, replay files, evidence
# ----------------------------------------------------------------------------------
def load_known_findings():
    path = os.path.join(VERIF, 'known_findings.json')
    if not os.path.exists(path):
        return []
    with open(path) as f:
        return json.load(f).get('entries', [])


def match_known(v, entries):
    """A violation is a known finding only if an entry with status 'finding' names the same
    property, oracle and key (the specific input / call site / history)."""
    for e in entries:
        if e.get('status') != 'finding':
            continue
        if e.get('property') == v.get('property') and e.get('oracle') == v.get('oracle') \
                and e.get('key') == v.get('key'):
            return e
    return None


def write_replay(v):
    d = os.path.join(VERIF, 'replays')
    os.makedirs(d, exist_ok=True)
    name = f"{v['property']}-{v.get('seed', 0)}-{digest(v.get('case'))}.json"
    path = os.path.join(d, name)
    with open(path, 'w') as f:
        json.dump(v, f, indent=1, sort_keys=True, default=_json_default)
    return path


def validate_evidence(ev):
    """Minimal structural validation mirroring EVIDENCE.schema.json for the two levels used."""
    for k in ('property_id', 'tier', 'seed', 'level', 'coverage', 'wall_s'):
        if k not in ev:
            raise HarnessError(f'evidence lacks {k}')
    if ev['tier'] not in ('quick', 'thorough'):
        raise HarnessError('bad tier')
    if not isinstance(ev['seed'], int):
        raise HarnessError('bad seed')
    cov = ev['coverage']
    if ev['level'] in ('exploration', 'fault_enumeration'):
        for k in ('evaluations', 'distinct_nontrivial', 'rule', 'samples'):
            if k not in cov:
                raise HarnessError(f'coverage lacks {k}')
        if not (isinstance(cov['evaluations'], int) and cov['evaluations'] >= 1):
            raise HarnessError('evaluations < 1')
        if not (isinstance(cov['distinct_nontrivial'], int) and cov['distinct_nontrivial'] >= 2):
            raise HarnessError('distinct_nontrivial < 2')
        if not (isinstance(cov['samples'], list) and len(cov['samples']) >= 1):
            raise HarnessError('no samples')


def write_evidence(prop_id, ev):
    validate_evidence(ev)
    d = os.path.join(VERIF, 'evidence')
    os.makedirs(d, exist_ok=True)
    path = os.path.join(d, f'{prop_id}.json')
    tmp = path + '.tmp'
    with open(tmp, 'w') as f:
        json.dump(ev, f, indent=1, sort_keys=True, default=_json_default)
        f.write('\n')
    os.replace(tmp, path)
    return path


def git_head(path):
    try:
        import subprocess
        return subprocess.run(['git', '-C', path, 'rev-parse', 'HEAD'], capture_output=True,
                              text=True, timeout=10).stdout.strip()
    except Exception:
        return ''
