"""Interrupted interactive sessions with write-back (C20) and solve -> write back -> solve
histories (C13), generic over the synthetic and the shipped world.

R4: "well-formed input file" means a *fresh* configparser.ConfigParser reads it without error -
that is the reader the next `habutax solve` will use."""
import configparser
import os

from . import core
from . import simrun


class World(object):
    """what a CLI session needs to know"""

    def __init__(self, year, requested, answer, sched, year_forms=None, dup=False, budget=6000, invalid_texts=None):
        self.year, self.requested, self.answer, self.sched = year, list(requested), answer, list(sched)
        self.year_forms, self.dup, self.budget = year_forms, dup, budget
        self.invalid_texts = invalid_texts or (lambda name: [])


def parse_ini(text):
    """R4.  -> {(section, key): stripped value}; raises configparser.Error if malformed"""
    cfg = configparser.ConfigParser(interpolation=None)
    cfg.read_string(text)
    return {(sec, k): cfg.get(sec, k).strip() for sec in cfg.sections() for k in cfg[sec]}


def names_of(items):
    return sorted(f'{sec}.{k}' for sec, k in items)


def session(world, path, cli):
    """run one `habutax solve` on the file at path (left as it is)"""
    try:
        with open(path, newline='') as f:
            before_text = f.read()
    except OSError:
        before_text = None
    before = parse_ini(before_text) if before_text is not None else {}
    run = simrun.cli_session(world.year, world.requested, path, world.answer, world.sched, cli,
                             names_of(before), year_forms=world.year_forms, dup=world.dup, budget=world.budget)
    run.before_items = before
    run.answers = {}
    for k, name, what in run.stdin_log:
        if what == 'answer':
            run.answers[name] = world.answer(name)
    return run


def check_file_after(run, F, tag):
    """the C20 file oracle for one (possibly interrupted) write-back session"""
    fs = []
    if run.file_after is None:
        fs.append(F('C20', 'C20.file', 'file-missing', f'{tag}: input file does not exist after the session'))
        return fs, None
    try:
        after = parse_ini(run.file_after)
    except configparser.Error as e:
        fs.append(F('C20', 'C20.file', 'file-malformed', f'{tag}: input file is not well-formed after the session: {type(e).__name__}: {str(e)[:120]}'))
        return fs, None
    lost = [(k, v) for k, v in run.before_items.items() if after.get(k) != v]
    if lost:
        fs.append(F('C20', 'C20.file', 'prior-value-lost', f'{tag}: values held before the session are gone or changed: '
                                                             f'{[(f"{s}.{k}", v, after.get((s, k))) for (s, k), v in lost[:4]]}'))
    gone = []
    for name, text in run.answers.items():
        sec, key = name.rsplit('.', 1)
        if after.get((sec, key.lower())) != text.strip():
            gone.append((name, text, after.get((sec, key.lower()))))
    if gone:
        fs.append(F('C20', 'C20.file', 'answer-lost', f'{tag}: answers given before the interruption are not in the file: {gone[:4]}'))
    return fs, after


def write_text(path, text):
    if text is None:
        if os.path.exists(path):
            os.remove(path)
        return
    with open(path, 'w', newline='') as f:
        f.write(text)


def interrupted_history(world, initial_text, rounds, garble, F, path=None, ref=None):
    """rounds: list of [k, kind] interruptions, applied to successive sessions on the same file, followed by one
    uninterrupted session.  Returns (findings, info)."""
    path = path or os.path.join(simrun.scratch_dir(), 'hist_in.ini')
    write_text(path, initial_text)
    fs = []
    answered = {}
    info = {'rounds': [], 'fired': []}
    for n, (k, kind) in enumerate(rounds):
        cli = {'prompt': True, 'writeback': True, 'solution': False, 'interrupt': [k, kind],
               'garble': garble if kind.endswith('_retry') else {}}
        run = session(world, path, cli)
        tag = f'round {n} ({kind}@{k})'
        fired = any(w in ('ctrlc', 'eof') for _, _, w in run.stdin_log)
        retry_fired = fired and any(w == 'garble' for _, _, w in run.stdin_log[-2:])
        info['rounds'].append({'k': k, 'kind': kind, 'fired': fired, 'outcome': run.outcome, 'exc': run.exc,
                               'answered': len(run.answers), 'retry_fired': retry_fired})
        if fired:
            info['fired'].append(kind)
        again = sorted(set(run.monitor.prompted) & set(answered))
        if again:
            fs.append(F('C20', 'C20.resume', 'asked-again', f'{tag}: asked again for {again[:5]}, answered in an earlier session'))
        f2, after = check_file_after(run, F, tag)
        fs += f2
        for code, msg in run.monitor.violations:
            if code == 'H4':
                fs.append(F('C20', 'H4', 'H4', f'{tag}: {msg}'))
        answered.update(run.answers)
        if after is None:
            return fs, info
    # faults stop: one uninterrupted session
    fin = session(world, path, {'prompt': True, 'writeback': True, 'solution': False})
    info['final'] = {'outcome': fin.outcome, 'exc': fin.exc, 'asked': len(fin.monitor.prompted)}
    again = sorted(set(fin.monitor.prompted) & set(answered))
    if again:
        fs.append(F('C20', 'C20.resume', 'asked-again', f'resumed session asked again for {again[:5]}'))
    f2, _ = check_file_after(fin, F, 'resumed session')
    fs += f2
    if ref is not None:
        if (ref.outcome == 'abort') != (fin.outcome == 'abort'):
            fs.append(F('C20', 'C20.resume', 'end-state', f'resumed session ended {fin.outcome} {fin.exc}, uninterrupted session {ref.outcome} {ref.exc}'))
        elif ref.outcome != 'abort' and (ref.outcome != fin.outcome or ref.solution != fin.solution):
            fs.append(F('C20', 'C20.resume', 'end-state', f'resumed session ended {fin.outcome}, uninterrupted {ref.outcome}; solutions equal: {ref.solution == fin.solution}'))
    return fs, info
