"""Seeded generator of synthetic cases: world + persona (input values) + session script.

A *case* is explicit and JSON-able (it is what replay files contain):

  {'world': ..., 'persona': {qualified input name: {'text': str, 'typed': norm-list, 'invalid': bool}},
   'file': [names present in the input file], 'prompt': bool, 'refuse_at': k|None,
   'sched': [sched_seed|None, period], 'requested': [...], 'field_names': [...],
   'layout': layout_seed|None, 'faults': [enabled fault kinds]}
"""
from . import core

FORM_NAMES = ['fa', 'fb', 'fc', 'w', 'k-1', 'x_2', '9a', 'sch_b', '10z', '1040']
INPUT_NAMES = ['a', 'b', 'c', 'n', 'x_1', 'amt', 'flag', 'kind', 'id', 'note', 'zip', 'box_1', 'q2', 'x1', 'box1']
LINE_NAMES = ['1', '1a', '1b', '2', '2a', '3', '4z', '10', '11', '12', 'x_3', 'tot', 'chk',
              'part_3', '25d', '7_checkbox',
              # names whose natural-sort key equals another one's (1a, 2, x_3): order ties must not merge them
              '1_a', '02', 'x3']
# L1 is a *local* enumeration: every form instance that uses it builds its own copy of the class (as the shipped W-2 does for
# its box 12 codes), so members are only ever compared by name across forms
ENUMS = {'E1': ['alpha', 'beta', 'gamma'], 'E2': ['beta', 'delta'], 'L1': ['A', 'DD', 'W']}
ENUM_PICK = ['E1', 'E1', 'E1', 'E2', 'E2', 'L1', 'L1']
INSTANCES = ['0', '1', '2']

ALL_FAULTS = ['notimpl', 'raise', 'wrong', 'none', 'blank', 'unk_in', 'unk_ln', 'unsup_ln',
              'unsup_in', 'cycle', 'selfref', 'dup', 'corrupt', 'missing', 'refuse']

INPUT_TYPE_W = [('int', 4), ('float', 5), ('bool', 5), ('str', 2), ('enum', 2), ('enum_empty', 1),
                ('regex', 1), ('ssn', 1)]
LINE_TYPE_W = [('float', 8), ('int', 2), ('bool', 3), ('str', 2), ('enum', 1)]

FLOATS = [0.0, 1.0, 2.5, 10.25, 1500.0, 0.005, 1.005, 2.675, -3.5, 99999.99, 0.125, 1500.01, 7.0]
INTS = [0, 1, 2, 3, 5, 10, -1, 1500, 9007199254740993, 123456789012345678901]
STRS = ['abc', 'John Q', 'x', '', 'a=b; c', 'Zoe~', '(paren', 'back\\slash', '1040', 'Where St #12', '#4B', 'x ;y', '; z',
        'line one\nline two', 'a\n\nb after an empty line', 'form\x0cfeed', 'vt\x0btab',
        # several rows that each look like a line of their own ("label: amount", "label = amount", "[x]")
        'CASDI: 61.20\nRSU: 500.00\nDUES = 12', 'see\n[w]\nnote: 1',
        # dollar signs (another interpolation syntax gives them a meaning)
        'Ca$h & Carry', 'NC SDI $12.40', '${x}', '$']
REGEX_OK = ['ab1', 'cc9', 'ba0']
SSNS = [('123-45-6789', '123456789'), ('987654321', '987654321'), ('000-00-0001', '000000001')]
TRUE_TXT = ['yes', 'y', 'true', '1', 'on', 'Yes', 'TRUE']
FALSE_TXT = ['no', 'n', 'false', '0', 'off', 'No', 'FALSE']

INVALID = {
    'int': ['abc', '1.5', '1e3', '0x10'],
    'float': ['abc', '1,5', '--1', '1.2.3'],
    'bool': ['maybe', '2', '', 'nope'],
    'enum': ['Alpha', '', 'zeta', 'alpha beta'],
    'enum_empty': ['Alpha', 'zeta'],
    'regex': ['zz', 'ab12', '', 'AB1'],
    'ssn': ['12345678', '123-45-678x', '', '1234567890'],
}


def render_value(rng, ispec):
    """-> (text, typed norm-list) for a *valid* value of the input's type."""
    t = ispec['type']
    if t == 'int':
        v = rng.pick([0, 1, 2, 3]) if ispec.get('count') else rng.pick(INTS)
        forms = [str(v), f' {v} ', f'{v}']
        if v > 0:
            forms.append(f'+{v}')
            forms.append(f'0{v}')
        if v == 0:
            forms.append('')
        return rng.pick(forms), ['i', v]
    if t == 'float':
        v = rng.pick(FLOATS)
        forms = [repr(v), f'{v:.3f}', f'  {v!r}', f'{v:e}']
        if v == int(v):
            forms.append(str(int(v)))
        if v == 0.0:
            forms.append('')
        txt = rng.pick(forms)
        return txt, ['f', repr(float(txt.strip() or '0'))]
    if t == 'bool':
        v = rng.chance(0.5)
        return rng.pick(TRUE_TXT if v else FALSE_TXT), ['b', v]
    if t == 'str':
        v = rng.pick(STRS)
        if '\n' in v:
            return v, ['s', v]
        return rng.pick([v, f' {v}', f'{v}  ']), ['s', v]
    if t == 'enum' or t == 'enum_empty':
        members = ENUMS[ispec['enum']]
        if t == 'enum_empty' and rng.chance(0.35):
            return rng.pick(['', ' ']), ['n']
        m = rng.pick(members)
        return rng.pick([m, f' {m} ']), ['e', ispec['enum'], m]
    if t == 'regex':
        v = rng.pick(REGEX_OK)
        return v, ['s', v]
    if t == 'ssn':
        txt, v = rng.pick(SSNS)
        return txt, ['s', v]
    raise core.HarnessError(t)


class Gen(object):
    def __init__(self, rng, faults):
        self.rng = rng
        self.faults = set(faults)
        self.fired_nodes = []

    # ---- world skeleton ----
    def world(self):
        rng = self.rng
        nf = rng.weighted([(1, 3), (2, 4), (3, 3), (4, 1)])
        names = rng.sample(FORM_NAMES, nf)
        forms = []
        for k, name in enumerate(names):
            kind = 'form' if k == 0 or rng.chance(0.7) else 'inputform'
            multi = k > 0 and rng.chance(0.4)
            itypes = INPUT_TYPE_W if kind == 'form' else [x for x in INPUT_TYPE_W if x[0] != 'regex']
            nin = rng.weighted([(0, 1), (1, 2), (2, 3), (3, 3), (4, 2), (5, 1)])
            if kind == 'inputform':
                nin = max(nin, 1)
            inames = rng.sample(INPUT_NAMES, nin)
            inputs = []
            for n in inames:
                t = rng.weighted(itypes)
                spec = {'name': n, 'type': t}
                if t in ('enum', 'enum_empty'):
                    spec['enum'] = rng.pick(ENUM_PICK)
                inputs.append(spec)
            fs = {'name': name, 'kind': kind, 'multi': multi, 'seq': rng.randrange(4),
                  'inputs': inputs, 'required': [], 'optional': []}
            if kind == 'form' and rng.chance(0.5):
                en = rng.pick(['E1', 'E1', 'E2'])
                mem = list(ENUMS[en])
                fs['thresholds'] = {'flat': rng.pick([1500.0, 300, 0.1]),
                                    'by_status': {'enum': en, 'table': ([[mem[:2], rng.pick([600.0, 12950.0])]] +
                                                                        [[[m], rng.pick([300.0, 25900.0, 7.5])] for m in mem[2:]])
                                                  if len(mem) > 2 else [[[m], v] for m, v in zip(mem, [600.0, 300.0])]}}
            if kind == 'form':
                nreq = rng.weighted([(1, 2), (2, 3), (3, 3), (4, 2), (5, 1)])
                nopt = rng.weighted([(0, 3), (1, 3), (2, 2), (3, 1), (4, 1)])
                if k > 0 and rng.chance(0.12):
                    # a worksheet: nothing in it is required, its lines exist only for whoever reads them
                    nreq, nopt = 0, max(nopt, 1)
                lnames = rng.sample(LINE_NAMES, nreq + nopt)
                for j, ln in enumerate(lnames):
                    t = rng.weighted(LINE_TYPE_W)
                    l = {'name': ln, 'type': t}
                    if t == 'float' and rng.chance(0.4):
                        l['places'] = rng.pick([0, 1, 2, 3])
                    if t == 'enum':
                        l['enum'] = rng.pick(ENUM_PICK)
                    (fs['required'] if j < nreq else fs['optional']).append(l)
            forms.append(fs)
        # occasionally a "wide" form: many lines waiting for the same input at the same moment
        if rng.chance(0.05) and forms[0]['inputs']:
            i0 = forms[0]['inputs'][0]
            if i0['type'] in ('int', 'float', 'bool'):
                for k in range(rng.pick([13, 16, 24])):
                    forms[0]['required'].append({'name': f'z_{k}', 'type': 'float', '_wide': i0['name']})
        elif rng.chance(0.05):
            # ... or many lines reading the same line (which may be unimplemented / blocked)
            l0 = forms[0]['required'][0]
            if l0['type'] in ('int', 'float', 'bool'):
                for k in range(rng.pick([5, 9, 14])):
                    forms[0]['required'].append({'name': f'y_{k}', 'type': 'float', '_wideline': l0['name']})
        # a counting input on the first form, used by sum-over-instances
        if any(f['multi'] for f in forms):
            f0 = forms[0]
            if not any(i['name'] == 'cnt' for i in f0['inputs']):
                f0['inputs'].append({'name': 'cnt', 'type': 'int', 'count': True})
        world = {'enums': ENUMS, 'forms': forms}
        self._fill_exprs(world)
        return world

    # ---- expressions ----
    def _fill_exprs(self, world):
        rng = self.rng
        self.w = world
        from .synth import lines_of
        self.all_lines = []       # (form spec, line spec, is_required)
        for fs in world['forms']:
            req, opt = lines_of(fs)
            for l in req:
                self.all_lines.append((fs, l, True))
            for l in opt:
                self.all_lines.append((fs, l, False))
        order = list(range(len(self.all_lines)))
        rng.shuffle(order)
        self.rank = {id(self.all_lines[i][1]): r for r, i in enumerate(order)}
        for fs, l, _ in self.all_lines:
            if fs['kind'] == 'inputform':
                continue
            self.cur_form, self.cur_line = fs, l
            if '_wide' in l:
                l['expr'] = ['add', ['in', l.pop('_wide')], ['const', 1]]
                continue
            if '_wideline' in l:
                l['expr'] = ['add', ['ln', l.pop('_wideline')], ['const', 1]]
                continue
            l['expr'] = self._tail(l)

    def _ref(self, target_fs, name, inst=None):
        """reference string from the current form to `name` on target form"""
        rng = self.rng
        if target_fs is self.cur_form:
            if not target_fs['multi'] and rng.chance(0.15):
                return f"{target_fs['name']}.{name}"
            return name
        if target_fs['multi']:
            inst = inst if inst is not None else rng.pick(INSTANCES)
            return f"{target_fs['name']}:{inst}.{name}"
        return f"{target_fs['name']}.{name}"

    def _inputs_of_type(self, types):
        out = []
        for fs in self.w['forms']:
            for i in fs['inputs']:
                if i['type'] in types:
                    out.append((fs, i))
        return out

    def _lines_of_type(self, types, enum=None):
        """candidate lines to read: mostly 'earlier' ones in the random global order (acyclic);
        with the cycle fault any line; with selfref the line itself."""
        me = self.rank[id(self.cur_line)]
        out = []
        for fs, l, _ in self.all_lines:
            if l['type'] not in types:
                continue
            if enum is not None and l.get('enum') != enum:
                continue
            r = self.rank[id(l)]
            if r < me:
                out.append((fs, l))
            elif r == me:
                if 'selfref' in self.faults and self.rng.chance(0.3):
                    out.append((fs, l))
            elif 'cycle' in self.faults and self.rng.chance(0.25):
                out.append((fs, l))
        return out

    def _fault_node(self, typed):
        """a node that cannot produce a value; None if no such fault is enabled"""
        rng = self.rng
        cands = [f for f in ('notimpl', 'raise', 'unk_in', 'unk_ln', 'unsup_ln', 'unsup_in')
                 if f in self.faults]
        if not cands:
            return None
        f = rng.pick(cands)
        self.fired_nodes.append(f)
        if f == 'notimpl':
            return ['notimpl']
        if f == 'raise':
            return ['raise']
        if f == 'unk_in':
            fs = rng.pick(self.w['forms'])
            return ['in', self._ref(fs, 'nosuch_in')]
        if f == 'unk_ln':
            fs = rng.pick(self.w['forms'])
            return ['ln', self._ref(fs, 'nosuch_ln')]
        if f == 'unsup_ln':
            return ['ln', rng.pick(['zz_absent.1', 'zz_absent:0.tot'])]
        if f == 'unsup_in':
            return ['in', rng.pick(['zz_absent.a', 'zz_absent:1.a'])]

    def _num(self, d):
        rng = self.rng
        if d <= 0 or rng.chance(0.3):
            c = rng.random()
            if c < 0.45:
                ins = self._inputs_of_type(('int', 'float', 'bool'))
                if ins:
                    fs, i = rng.pick(ins)
                    if rng.chance(0.08):
                        return ['inget', self._ref(fs, i['name']), rng.pick([0, 1.5])]
                    return ['in', self._ref(fs, i['name'])]
            if c < 0.85:
                ls = self._lines_of_type(('float', 'int', 'bool'))
                if ls:
                    fs, l = rng.pick(ls)
                    if rng.chance(0.12):
                        return ['lnget', self._ref(fs, l['name']), rng.pick([0, 0.0, 7.5])]
                    return ['ln', self._ref(fs, l['name'])]
            return ['const', rng.pick([0, 1, 2.5, 100.0, 0.005, 1500])]
        c = rng.random()
        if self.cur_form.get('thresholds') and rng.chance(0.15):
            # a form that has threshold tables uses them
            if rng.chance(0.3):
                return ['thr', 'flat', None]
            return ['thr', 'by_status', self._enum(self.cur_form['thresholds']['by_status']['enum'], d - 1)]
        if c < 0.06:
            fn = self._fault_node('num')
            if fn is not None:
                return ['if', self._bool(d - 1), fn, self._num(d - 1)]
        if c < 0.30:
            return [rng.pick(['add', 'sub', 'min', 'max']), self._num(d - 1), self._num(d - 1)]
        if c < 0.38:
            return ['mul', rng.pick([2, 0.5, 0.1, -1]), self._num(d - 1)]
        if c < 0.58:
            return ['if', self._bool(d - 1), self._num(d - 1), self._num(d - 1)]
        if c < 0.70:
            multis = [f for f in self.w['forms'] if f['multi'] and f is not self.cur_form]
            cnt = [(fs, i) for fs, i in self._inputs_of_type(('int',)) if i.get('count')]
            if multis and cnt:
                mf = rng.pick(multis)
                from .synth import lines_of
                req, opt = lines_of(mf)
                cand = [l for l in req + opt if l['type'] in ('float', 'int', 'bool')]
                if cand and (self.cur_form.get('multi') is False):
                    cfs, ci = rng.pick(cnt)
                    if not cfs['multi']:
                        return ['sum', mf['name'], self._ref(cfs, ci['name']), rng.pick(cand)['name']]
        if c < 0.74 and self.cur_form.get('thresholds'):
            if rng.chance(0.4):
                return ['thr', 'flat', None]
            return ['thr', 'by_status', self._enum(self.cur_form['thresholds']['by_status']['enum'], d - 1)]
        if c < 0.78:
            return ['seq', self._any(d - 1), self._num(d - 1)]
        if c < 0.84:
            return ['len', self._str(d - 1)]
        return self._num(0)

    def _bool(self, d):
        rng = self.rng
        c = rng.random()
        own_local = [i for i in self.cur_form['inputs'] if i.get('enum') == 'L1']
        if own_local and rng.chance(0.2):
            # "is this statement's own code W?": compared with this copy's own constant
            i = rng.pick(own_local)
            return ['iseq', ['in', self._ref(self.cur_form, i['name']), 'L1'], 'L1', rng.pick(ENUMS['L1'])]
        if d <= 0 or c < 0.35:
            ins = self._inputs_of_type(('bool',))
            ls = self._lines_of_type(('bool',))
            if ins and (not ls or rng.chance(0.6)):
                fs, i = rng.pick(ins)
                return ['in', self._ref(fs, i['name'])]
            if ls:
                fs, l = rng.pick(ls)
                return ['ln', self._ref(fs, l['name'])]
            anyl = self._lines_of_type(('float', 'int', 'bool', 'str', 'enum'))
            if anyl and rng.chance(0.3):
                fs, l = rng.pick(anyl)
                return ['has', self._ref(fs, l['name'])]
            return ['gt', self._num(0), ['const', rng.pick([0, 1, 1500.0])]]
        if c < 0.6:
            return ['gt', self._num(d - 1), self._num(d - 1)]
        if c < 0.72:
            return [rng.pick(['and', 'or']), self._bool(d - 1), self._bool(d - 1)]
        if c < 0.8:
            return ['not', self._bool(d - 1)]
        if c < 0.9:
            en = rng.pick(ENUM_PICK)
            if rng.chance(0.4):
                # compared with the form's own constant (for a local enumeration: this very copy's)
                return ['iseq', self._enum(en, d - 1), en, rng.pick(ENUMS[en])]
            return ['isenum', self._enum(en, d - 1, by_name=True), rng.pick(ENUMS[en])]
        foreign_local = [(fs, i) for fs, i in self._inputs_of_type(('enum', 'enum_empty'))
                         if i['enum'] == 'L1' and fs is not self.cur_form]
        if foreign_local and rng.chance(0.6):
            # "is that statement's code W?": another form's local enumeration, looked at by name
            fs, i = rng.pick(foreign_local)
            return ['isenum', ['in', self._ref(fs, i['name']), 'L1'], rng.pick(ENUMS['L1'])]
        return ['gt', self._num(d - 1), ['const', rng.pick([0, 1, 10])]]

    def _enum(self, ename, d, by_name=False):
        """enum-typed expression of enum `ename`; encoded with the enum name as last element
        for 'in'/'ln' (ignored by the evaluator).  by_name: the value is only compared by member name, so a member of
        another form's copy of a local enumeration will do as well."""
        rng = self.rng
        ins = [(fs, i) for fs, i in self._inputs_of_type(('enum', 'enum_empty')) if i['enum'] == ename]
        ls = self._lines_of_type(('enum',), enum=ename)
        if ename == 'L1' and not by_name:
            # the value becomes the value of an enumeration line of THIS form instance: it must come from this instance
            ins = [(fs, i) for fs, i in ins if fs is self.cur_form]
            ls = [(fs, l) for fs, l in ls if fs is self.cur_form]
        c = rng.random()
        if ins and c < 0.5:
            fs, i = rng.pick(ins)
            return ['in', self._ref(fs, i['name']), ename]
        if ls and c < 0.8:
            fs, l = rng.pick(ls)
            return ['ln', self._ref(fs, l['name']), ename]
        return ['enumc', ename, rng.pick(ENUMS[ename])]

    def _str(self, d):
        rng = self.rng
        c = rng.random()
        ins = self._inputs_of_type(('str', 'ssn', 'regex'))
        ls = self._lines_of_type(('str',))
        eins = self._inputs_of_type(('enum', 'enum_empty'))
        if eins and rng.chance(0.12):
            # the name of a choice as text
            fs, i = rng.pick(eins)
            return ['in', self._ref(fs, i['name'])]
        if ins and c < 0.4:
            fs, i = rng.pick(ins)
            return ['in', self._ref(fs, i['name'])]
        if ls and c < 0.65:
            fs, l = rng.pick(ls)
            return ['ln', self._ref(fs, l['name'])]
        if d > 0 and c < 0.85:
            return ['cat', self._str(d - 1), rng.pick([' ', ', ', '']), self._str(d - 1)]
        return ['const', rng.pick(['txt', 'A B', ' padded ', '(x)'])]

    def _any(self, d):
        c = self.rng.random()
        if c < 0.5:
            return self._num(d)
        if c < 0.8:
            return self._bool(d)
        return self._str(d)

    def _typed(self, line, d):
        t = line['type']
        if t in ('float', 'int'):
            return self._num(d)
        if t == 'bool':
            return self._bool(d)
        if t == 'str':
            return self._str(d)
        return self._enum(line['enum'], d)

    def _tail(self, line):
        """top-level expression of a line: typed expression, optionally with tail-only Raw
        results (None / blank / wrong type) or an unguarded fault node."""
        rng = self.rng
        d = rng.weighted([(0, 2), (1, 4), (2, 3), (3, 1)])
        body = self._typed(line, d)
        tails = [f for f in ('none', 'blank', 'wrong') if f in self.faults]
        if tails and rng.chance(0.22):
            f = rng.pick(tails)
            self.fired_nodes.append(f)
            from .synth import WRONG_KINDS
            if f == 'none':
                node = ['none']
            elif f == 'blank':
                node = ['blank', rng.pick(['', ' ', '\t ', '\u3000', '\u2028\u2003', '\x1f', '\xa0 ', '\n'])]
            else:
                node = ['wrong', rng.pick(WRONG_KINDS[line['type']])]
            if rng.chance(0.3):
                return node
            return ['if', self._bool(1), node, body]
        if rng.chance(0.05):
            fn = self._fault_node(line['type'])
            if fn is not None:
                return fn if rng.chance(0.4) else ['seq', fn, body]
        return body

    def _noop(self):
        return None


# ----------------------------------------------------------------------------------
def instances_of(fs):
    return INSTANCES if fs['multi'] else [None]


def qual(fs, inst, name):
    return f"{fs['name']}:{inst}.{name}" if inst is not None else f"{fs['name']}.{name}"


PDF_NAMES = ['topmostSubform[0].Page1[0].f1_{n:02d}[0]', 'topmostSubform[0].Page2[0].Table[0].Row{n}[0].c2_{n}[0]',
             'form1[0].Name(first)[0].f{n}', 'y\\d400[0].p1[0].f{n}[0]']


def add_pdf(world, rng, tight=False):
    """give the 'form' kind forms PDF mappings, a filing rule, and a jurisdiction/sequence for ordering"""
    from .synth import lines_of
    n = 0
    for fs in world['forms']:
        fs['seq'] = rng.randrange(6)
        if fs['kind'] != 'form':
            continue
        if rng.chance(0.12):
            fs['files'] = 'never'         # a worksheet
            continue
        maps = []
        for l in fs['required'] + fs['optional']:
            if not rng.chance(0.75):
                continue
            n += 1
            pn = rng.weighted([(PDF_NAMES[0], 8), (PDF_NAMES[1], 3), (PDF_NAMES[2], 1), (PDF_NAMES[3], 1)]).format(n=n)
            t = l['type']
            if t == 'bool':
                m = {'pdf_name': pn, 'line': l['name'], 'kind': 'button', 'true_value': rng.pick(['1', '2', 'Yes'])}
                maps.append(m)
                if rng.chance(0.3):
                    n += 1
                    maps.append(dict(m, pdf_name=pn + '.no', negate=True, true_value='2'))
                continue
            if t == 'enum' and rng.chance(0.6):
                ch = list(ENUMS[l['enum']]) + ['']
                if tight and rng.chance(0.4):
                    ch = ch[1:]
                maps.append({'pdf_name': pn, 'line': l['name'], 'kind': 'choice', 'choices': ch})
                continue
            m = {'pdf_name': pn, 'line': l['name'], 'kind': 'text'}
            if rng.chance(0.5 if tight else 0.25):
                m['max_length'] = rng.pick([3, 5, 8, 9, 11, 17] if tight else [9, 11, 17, 40])
            maps.append(m)
        others = [f for f in world['forms'] if f is not fs and not f['multi'] and f['kind'] == 'form']
        if others and rng.chance(0.3):
            o = rng.pick(others)
            ls = o['required']
            if ls:
                n += 1
                maps.append({'pdf_name': PDF_NAMES[0].format(n=n), 'line': f"{o['name']}.{rng.pick(ls)['name']}", 'kind': 'text'})
        if not maps:
            fs['files'] = 'never'
            continue
        fs['pdf'] = maps
        bools = [l for l in fs['required'] if l['type'] == 'bool']
        if bools and rng.chance(0.3):
            fs['files'] = {'line': rng.pick(bools)['name']}
        else:
            fs['files'] = 'always'
    return world


def gen_case(seed, force_faults=None, clean=None, defaults=False, percent=False):
    rng = core.Rng(seed)
    r_f = rng.sub('faults')
    if force_faults is not None:
        faults = list(force_faults)
    elif clean is True or (clean is None and r_f.chance(0.3)):
        faults = []
    else:
        k = r_f.weighted([(1, 4), (2, 4), (3, 2), (5, 1)])
        faults = sorted(r_f.sample(ALL_FAULTS, k))
    g = Gen(rng.sub('world'), faults)
    world = g.world()

    # persona: a value for every input of every instance
    r_p = rng.sub('persona')
    persona = {}
    for fs in world['forms']:
        for inst in instances_of(fs):
            for ispec in fs['inputs']:
                txt, typed = render_value(r_p, ispec)
                persona[qual(fs, inst, ispec['name'])] = {'text': txt, 'typed': typed, 'invalid': False}
    if percent:
        # a text value containing % (written %% in the file): legal input, and the solution has to carry it
        strs = sorted(n for n in persona if (lambda sp: sp and sp['type'] == 'str')(
            next((i for f in world['forms'] if f['name'] == n.split('.')[0].split(':')[0] for i in f['inputs'] if i['name'] == n.split('.')[1]), None)))
        if strs:
            n = r_p.pick(strs)
            t = r_p.pick(['Fifty% Off Outlet', '100%% sure', 'a%(b)s', '%'])
            persona[n] = {'text': t, 'typed': ['s', t], 'invalid': False}
    # stray sections: an instanced form's inputs also given under the un-instanced section name (nobody reads those)
    if r_p.chance(0.15):
        for fs in world['forms']:
            if fs['multi']:
                for ispec in fs['inputs']:
                    txt, typed = render_value(r_p, ispec)
                    persona[qual(fs, None, ispec['name'])] = {'text': txt, 'typed': typed, 'invalid': False, 'stray': True}
    if 'corrupt' in faults and persona:
        r_c = rng.sub('corrupt')
        names = sorted(persona)
        for n in r_c.sample(names, min(len(names), r_c.pick([1, 1, 2]))):
            fs = next(f for f in world['forms'] if f['name'] == n.split('.')[0].split(':')[0])
            ispec = next(i for i in fs['inputs'] if i['name'] == n.split('.')[1])
            bad = INVALID.get(ispec['type'])
            if bad:
                persona[n] = {'text': r_c.pick(bad), 'typed': ['n'], 'invalid': True}

    # session script
    r_s = rng.sub('script')
    if 'missing' in faults or 'refuse' in faults:
        p_present = r_s.pick([0.9, 0.7, 0.5, 0.0])
    else:
        p_present = r_s.pick([1.0, 1.0, 0.8, 0.5, 0.0])
    names = sorted(persona)
    infile = [n for n in names if persona[n]['invalid'] or persona[n].get('stray') or '\n' in persona[n]['text']
              or '%' in persona[n]['text'] or r_s.chance(p_present)]
    if 'missing' in faults:
        prompt = r_s.chance(0.3)
    else:
        prompt = True if p_present < 1.0 else r_s.chance(0.5)
    refuse_at = None
    if prompt and 'refuse' in faults:
        refuse_at = r_s.pick([0, 0, 1, 1, 2, 3, 5])

    # requested forms: usually the first form (it is 'form' kind), plus sometimes another
    r_q = rng.sub('request')
    forms = world['forms']

    def req_name(fs):
        return f"{fs['name']}:{r_q.pick(INSTANCES)}" if fs['multi'] else fs['name']
    requested = [req_name(forms[0])]
    if len(forms) > 1 and r_q.chance(0.3):
        requested.append(req_name(r_q.pick(forms[1:])))
    worksheets = [f for f in forms[1:] if f['kind'] == 'form' and not f['required']]
    if worksheets and r_q.chance(0.5):
        w_ = req_name(r_q.pick(worksheets))
        if w_ not in requested:
            requested.insert(r_q.pick([0, len(requested)]), w_)
    if r_q.chance(0.15):
        requested = [req_name(r_q.pick(forms))]
    for rn in list(requested):
        if ':' in rn and r_q.chance(0.3):
            other = rn.split(':')[0] + ':' + r_q.pick([i for i in INSTANCES if i != rn.split(':')[1]])
            if other not in requested:
                requested.append(other)
    field_names = []
    for rn in requested:
        fs = next(f for f in forms if f['name'] == rn.split(':')[0])
        for l in fs['optional']:
            if r_q.chance(0.25):
                field_names.append(f"{rn}.{l['name']}")
    dup = False
    if 'dup' in faults:
        dup = True
        rn = requested[0]
        fs = next(f for f in forms if f['name'] == rn.split(':')[0])
        from .synth import lines_of
        req, _ = lines_of(fs)
        if req and r_q.chance(0.7):
            field_names.append(f"{rn}.{r_q.pick(req)['name']}")
        else:
            requested.append(rn)

    dflt = {}
    if defaults:
        # a [DEFAULT] section (configparser semantics: its options show up in every section that exists): one or two input
        # names that exactly one form declares get a default text that differs from what the user would answer
        r_d = rng.sub('defaults')
        count = {}
        for fs in forms:
            for i in fs['inputs']:
                count[i['name']] = count.get(i['name'], 0) + 1
        cands = [(fs, i) for fs in forms for i in fs['inputs'] if count[i['name']] == 1 and i['type'] in ('int', 'float', 'bool', 'str')]
        for fs, i in r_d.sample(cands, min(len(cands), r_d.pick([1, 1, 2]))):
            for _ in range(6):
                txt, typed = render_value(r_d, i)
                if all(persona[qual(fs, inst, i['name'])]['typed'] != typed for inst in instances_of(fs)) and txt.strip() != '':
                    break
            else:
                continue
            dflt[i['name']] = {'text': txt.strip(), 'typed': typed, 'form': fs['name']}
            for inst in instances_of(fs):
                q = qual(fs, inst, i['name'])
                persona[q]['default_text'] = txt.strip()
                persona[q]['default_typed'] = typed
                if q in infile:
                    infile.remove(q)
        if dflt:
            refuse_at = None
    noise = []
    r_n = rng.sub('noise')
    if r_n.chance(0.12):
        # sections whose names differ from a real one only in case / padding (section names are case sensitive: unused)
        secs = sorted({n.rsplit('.', 1)[0] for n in persona})
        for sec in r_n.sample(secs, min(len(secs), r_n.pick([1, 1, 2]))):
            variant = r_n.pick([sec.upper(), sec.capitalize(), sec.title()])
            if variant == sec:
                continue
            fsn = next(f for f in forms if f['name'] == sec.split(':')[0])
            for ispec in fsn['inputs']:
                if r_n.chance(0.7):
                    txt, _ = render_value(r_n, ispec)
                    if '\n' not in txt:
                        noise.append([variant, ispec['name'], txt.strip()])
    r_o = rng.sub('sched')
    sched = [None, 0] if r_o.chance(0.2) else [r_o.randrange(1 << 32), r_o.pick([0, 0, 1, 3])]
    layout = None if r_o.chance(0.4) else r_o.randrange(1 << 32)
    return {'world': world, 'persona': persona, 'file': infile, 'prompt': prompt,
            'refuse_at': refuse_at, 'sched': sched, 'requested': requested,
            'field_names': field_names, 'layout': layout, 'faults': faults, 'dup': dup, 'defaults': dflt,
            'noise': noise}


# ----------------------------------------------------------------------------------
# input-file text with meaning-preserving layout perturbation
# ----------------------------------------------------------------------------------
def file_text(case_or_items, layout=None, names=None):
    """INI text holding the given input names.  `layout` (seed or None) perturbs only what
    configparser defines as meaning-preserving: section order, key order, delimiter,
    spacing, blank/comment lines, key case, CRLF.
    case_or_items: a case dict (uses persona/file) or a list of (qualified name, text)."""
    head = []
    if isinstance(case_or_items, dict):
        case = case_or_items
        names = case['file'] if names is None else names
        items = [(n, case['persona'][n]['text'] if case['persona'][n].get('raw') else case['persona'][n]['text'].replace('%', '%%'))
                 for n in names]
        layout = case.get('layout') if layout is None else layout
        for sec, key, txt in case.get('noise') or []:
            items.append((f'{sec}.{key}', txt))
        if case.get('defaults'):
            head = ['[DEFAULT]'] + [f"{k} = " + d['text'].replace('\n', '\n    ') for k, d in sorted(case['defaults'].items())] + ['']
    else:
        items = list(case_or_items)
    sections = {}
    for n, txt in items:
        sec, key = n.rsplit('.', 1)
        sections.setdefault(sec, []).append((key, txt))
    secnames = list(sections)
    if layout is None:
        out = []
        for sec in secnames:
            out.append(f'[{sec}]')
            for k, t in sections[sec]:
                out.append(f'{k} = ' + t.replace('\n', '\n    '))
            out.append('')
        return '\n'.join(head + out)
    rng = core.Rng(core.h64('layout', layout))
    rng.shuffle(secnames)
    nl = '\r\n' if rng.chance(0.15) else '\n'
    out = list(head)
    if rng.chance(0.3):
        out.append('# generated layout')
    for sec in secnames:
        if rng.chance(0.3):
            out.append('')
        out.append(f'[{sec}]')
        kv = list(sections[sec])
        rng.shuffle(kv)
        for k, t in kv:
            if rng.chance(0.15):
                out.append(rng.pick(['; note', '# c', '']))
            key = k.upper() if rng.chance(0.15) else k
            delim = rng.pick([' = ', '=', ': ', ' : ', ' =  ', '\t=\t'])
            t2 = t.strip().replace('\n', nl + '\t')
            if t2 == '':
                out.append(f'{key}{delim.rstrip() or "="}')
            else:
                out.append(f'{key}{delim}{t2}{rng.pick(["", " ", "  "])}')
    tail = rng.pick(['nl', 'nl', 'nl', 'none', 'blanks', 'spaces'])
    if tail == 'nl':
        out.append('')
    elif tail == 'blanks':
        out += ['', '', '']
    elif tail == 'spaces':
        out += ['   ', '']
    return nl.join(out)
