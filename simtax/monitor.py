"""Invariants H1..H5 of DESIGN.md section 2.6, evaluated event by event while a run
proceeds.  The monitor only sees the event stream (reads, attempts, returns, prompts); it
never looks at private solver state.

A violation is recorded as (code, message); which *property* a code belongs to is decided
by the property modules:  H1,H2 -> C03/C12   H3 -> C13/C06   H4 -> C06/C20   H5 -> C06."""


class Monitor(object):
    def __init__(self, supplied=(), dup_demand=False, const=3, lenient=()):
        self.lenient = set(lenient)         # inputs a [DEFAULT] section may provide: supplied-ness depends on which sections exist
        self.supplied = set(supplied)      # inputs present in the file when the run started
        self.dup = dup_demand              # the same line may legitimately be queued twice
        self.const = const
        self.stored = {}                   # line -> normalised value its evaluation returned
        self.attempts = {}
        self.last = {}                     # line -> outcome of its latest attempt
        self.blocked_on = {}               # line -> set of distinct things it had to wait for
        self.missing_reads = {}            # input -> set of lines whose read of it was 'missing'
        self.prompted = []
        self.answered = {}
        self.refused = False
        self.violations = []
        self.open_prompt = None
        self.n_reads = 0
        self.reattempts = 0
        self.max_evals = 0
        self.reg = {}                      # (tracker, dependency) -> list of registered waiters
        self.met = {}                      # tracker -> dependencies marked met, in order
        self.n_reg = 0
        self.n_rel = 0
        self.reg_after_meet = 0

    def bad(self, code, msg):
        # a few of each kind (a flood of one kind must not crowd out the first report of another)
        if sum(1 for c, _ in self.violations if c == code) < 4 and len(self.violations) < 40:
            self.violations.append((code, msg))

    def feed(self, ev):
        k = ev[0]
        if k == 'RL':
            self.n_reads += 1
            _, line, q, out = ev
            if out[0] == 'ok':
                if q not in self.stored:
                    self.bad('H1', f'{line} read {q} and got {out[1]} but no evaluation of {q} has completed')
                elif self.stored[q] != out[1]:
                    self.bad('H1', f'{line} read {q} and got {out[1]}, its evaluation returned {self.stored[q]}')
        elif k == 'RI':
            self.n_reads += 1
            _, line, q, out = ev
            if out[0] == 'missing':
                self.missing_reads.setdefault(out[1], set()).add(line)
                if (out[1] in self.supplied or out[1] in self.answered) and out[1] not in self.lenient:
                    self.bad('H6', f'{line} read {out[1]}: reported missing although it was supplied')
            elif out[0] == 'ok':
                if q not in self.supplied and q not in self.answered and q not in self.lenient:
                    self.bad('H6', f'{line} read {q} and got {out[1]} although it was never supplied')
        elif k == 'A':
            line = ev[1]
            n = self.attempts.get(line, 0) + 1
            self.attempts[line] = n
            if n > 1:
                self.reattempts += 1
            if n > self.max_evals:
                self.max_evals = n
            bound = self.const + len(self.blocked_on.get(line, ()))
            if self.dup:
                bound *= 2          # the caller itself queued lines twice
            if n == bound + 1:
                last = self.last.get(line)
                self.bad('H5n' if last is not None and last[0] == 'nospec' else 'H5b', f'{line} evaluated {n} times but waited for only '
                                f'{len(self.blocked_on.get(line, ()))} distinct things')
        elif k == 'V':
            _, line, val = ev
            if line in self.stored and self.stored[line] != val:
                self.bad('H2', f'{line} evaluated twice with different results {self.stored[line]} / {val}')
            self.stored[line] = val
            self.last[line] = ('value',)
        elif k == 'X':
            _, line, kind = ev
            self.last[line] = tuple(kind)
            if kind[0] in ('unmet', 'missing', 'nospec'):
                self.blocked_on.setdefault(line, set()).add((kind[0], kind[1]))
        elif k == 'P':
            _, x, nb = ev
            if self.refused:
                self.bad('H4', f'prompt for {x} after the user refused to answer')
            if x in self.prompted:
                self.bad('H3a', f'{x} asked for more than once')
            if (x in self.supplied or x in self.answered) and x not in self.lenient:
                self.bad('H3b', f'{x} asked for although it was already supplied')
            readers = self.missing_reads.get(x, set())
            if not readers:
                self.bad('H3c', f'{x} asked for although no evaluated line read it and found it absent')
            extra = [n for n in nb if n not in readers]
            if extra:
                self.bad('H3d', f'{x}: quoted as needed by {extra}, which never read it')
            if not nb:
                self.bad('H3e', f'{x}: asked for with an empty needed-by list')
            self.prompted.append(x)
            self.open_prompt = x
        elif k == 'PR':
            _, x, out = ev
            self.open_prompt = None
            if out[0] == 'answer':
                self.answered[x] = out[1]
            else:
                self.refused = True
        elif k == 'PQ':
            _, x, extra, missing = ev
            self.bad('H3d', f'{x}: the question quotes {extra} as needing it and leaves out {missing}: not the lines that read it')
        elif k == 'PX':
            self.open_prompt = None
        elif k == 'TR':
            _, t, dep, w = ev
            self.reg.setdefault((t, dep), []).append(w)
            self.n_reg += 1
            if dep in self.met.get(t, ()):
                self.reg_after_meet += 1
        elif k == 'TM':
            _, t, dep = ev
            if dep not in self.stored and dep not in self.answered:
                self.bad('T0', f'{dep} marked as met although it was neither computed nor answered')
            self.met.setdefault(t, []).append(dep)
        elif k == 'TY':
            _, t, w = ev
            self.n_rel += 1
            for dep in self.met.get(t, ()):
                ws = self.reg.get((t, dep))
                if ws and w in ws:
                    ws.remove(w)
                    break
            else:
                self.bad('T1', f'{w} released although no dependency it is registered for has been met '
                               f'(or it was released twice)')

    def finish(self):
        """End-of-run check, only meaningful for a run that returned normally: a line whose
        latest attempt blocked on something that is available now was never released."""
        for (t, dep), ws in sorted(self.reg.items()):
            if ws and dep in self.met.get(t, ()):
                self.bad('T2', f'{sorted(set(ws))} registered as waiting for {dep}, which was met, but never released')
        for line, last in self.last.items():
            if last[0] == 'unmet' and last[1] in self.stored:
                self.bad('H5c', f'{line} still waits for {last[1]}, which has a value: waiter lost')
            elif last[0] == 'missing' and last[1] in self.answered:
                self.bad('H5c', f'{line} still waits for input {last[1]}, which was answered: waiter lost')
