"""The two-invocation pipeline  `habutax solve --solution F`  ->  text  ->  `habutax fill-pdfs F out.pdf`
with pdftk replaced by an in-process fake (seam S5), and the oracles of C14 / C19.

The fake records every command line, reads every FDF it is handed, decodes it with the
independent PDF literal-string decoder R3, checks that the inputs of `cat` exist, and
writes placeholder outputs."""
import configparser
import os
import re

from . import core
from . import crash
from . import gen
from . import refmodel
from . import seams
from . import simrun

hb = core.import_habutax()
from habutax import form as hb_form          # noqa: E402
from habutax import forms as hb_forms        # noqa: E402
from habutax import fields as hb_fields      # noqa: E402
from habutax import pdf_fields as hb_pdf_fields  # noqa: E402
from habutax import values as hb_values      # noqa: E402


class FakeCompleted(object):
    returncode = 0


class FakePdftk(object):
    """stands in for the `subprocess` module inside habutax.pdf_filler"""

    class CalledProcessError(Exception):
        pass

    def __init__(self):
        self.cmds = []
        self.fills = []          # {'template','fdf_path','out','flatten','fdf_text','pairs' | 'syntax_error'}
        self.cats = []           # {'inputs': [...], 'out', 'missing': [...]}
        self.errors = []

    def run(self, cmd, check=False, **kw):
        cmd = list(cmd)
        self.cmds.append(cmd)
        if not cmd or cmd[0] != 'pdftk':
            self.errors.append(f'unexpected program {cmd[:1]}')
            return FakeCompleted()
        if 'fill_form' in cmd:
            try:
                template, _, fdf, _, out = cmd[1:6]
            except ValueError:
                self.errors.append(f'malformed fill_form command {cmd}')
                return FakeCompleted()
            rec = {'template': template, 'fdf_path': fdf, 'out': out, 'flatten': 'flatten' in cmd[6:],
                   'template_exists': os.path.exists(template)}
            try:
                with open(fdf, 'rb') as f:
                    raw = f.read()
                try:
                    text = raw.decode('utf-8')
                except UnicodeDecodeError:
                    text = raw.decode('latin-1')
                rec['fdf_text'] = text
                try:
                    rec['pairs'] = refmodel.fdf_parse(text)
                except refmodel.PDFSyntaxError as e:
                    rec['syntax_error'] = str(e)
            except OSError as e:
                rec['syntax_error'] = f'cannot read FDF: {e}'
            with open(out, 'w') as f:
                f.write('%PDF-fake filled\n')
            self.fills.append(rec)
        elif 'cat' in cmd:
            k = cmd.index('cat')
            ins = cmd[1:k]
            out = cmd[k + 2] if len(cmd) > k + 2 else None
            self.cats.append({'inputs': ins, 'out': out, 'missing': [p for p in ins if not os.path.exists(p)]})
            if out:
                with open(out, 'w') as f:
                    f.write('%PDF-fake cat\n')
        else:
            self.errors.append(f'unexpected pdftk command {cmd}')
        return FakeCompleted()


def normalise_cmd(cmd):
    """temporary directory names are not part of the behaviour"""
    return [re.sub(r'/tmp[^/]*/tmp[a-z0-9_]+/', '<tmp>/', re.sub(r'^/.*/(tmp[a-z0-9_]{6,})/', '<tmp>/', c)) for c in cmd]


class PipeResult(object):
    pass


def fill(solution_text, year_forms, flatten=True, out_name='out.pdf'):
    """run `habutax fill-pdfs` on the given solution text"""
    d = simrun.scratch_dir()
    sol = os.path.join(d, 'pipe_solution.ini')
    with open(sol, 'w', newline='') as f:
        f.write(solution_text)
    out = os.path.join(d, out_name)
    if os.path.exists(out):
        os.remove(out)
    fake = FakePdftk()
    rec = seams.Recorder()
    argv = ['fill-pdfs'] + ([] if flatten else ['--no-flatten']) + [sol, out]
    kind, exc, stdout = simrun.run_cli(argv, rec=rec, fake_subprocess=fake, year_forms=year_forms)
    r = PipeResult()
    r.kind, r.exc, r.stdout, r.fake, r.rec, r.out = kind, exc, stdout, fake, rec, out
    r.filler = rec.fillers[-1] if rec.fillers else None
    r.out_exists = os.path.exists(out)
    return r


def relayout(solution_text, layout):
    """meaning-preserving re-layout of a solution file between the two steps"""
    if layout is None:
        return solution_text
    cfg = configparser.ConfigParser(interpolation=None)
    cfg.read_string(solution_text)
    items = [(f'{sec}.{k}', cfg.get(sec, k)) for sec in cfg.sections() for k in cfg[sec]]
    if any('\n' in v for _, v in items):
        return solution_text
    return gen.file_text(items, layout=layout)


# ----------------------------------------------------------------------------------
# oracle side: own reading of a solution, own expectation of what is filled
# ----------------------------------------------------------------------------------
def own_read(solution_text, classes_by_name):
    """Read a solution as the statement says it must be read: through the same year's line
    definitions.  -> (year, {form instance: Form obj}, {qualified line: typed value}, {qualified: Field})"""
    cfg = configparser.ConfigParser()      # as the filler reads it: the stock reader, % escapes and all
    cfg.read_string(solution_text)
    year = cfg.getint('habutax', 'tax_year') if cfg.has_option('habutax', 'tax_year') else None
    forms, vals, fields = {}, {}, {}
    for sec in cfg.sections():
        if sec == 'habutax':
            continue
        base, inst = refmodel.split_inst(sec)
        cls = classes_by_name.get(base)
        if cls is None:
            raise core.HarnessError(f'solution section {sec} names no form of the year')
        obj = cls(instance=inst)
        forms[sec] = obj
        for f in obj.fields():
            fields[f.name()] = f
    for sec in cfg.sections():
        if sec == 'habutax':
            continue
        for k in cfg[sec]:
            q = f'{sec}.{k}'
            if q in fields:
                vals[q] = own_from_string(fields[q], cfg.get(sec, k))
    return year, forms, vals, fields


def own_from_string(field, text):
    """What the text of a stored line means, written down here once more for the plain line kinds
    (a solution holds the canonical text of each value), so that the reading the filler does is judged
    against something other than itself; any other kind of line is read through its own definition."""
    t = type(field)
    if t is hb_fields.IntegerField and re.fullmatch(r'\s*[-+]?[0-9]+\s*', text):
        return int(text)
    if t is hb_fields.StringField:
        return text
    if t is hb_fields.BooleanField and text in ('True', 'False'):
        return text == 'True'
    return field.from_string(text)


def expected_fill(forms, vals, fields, limits=None):
    """-> (ordered list of form instances that must be filled, {instance: {pdf field: text}} , expected_error or None)
    expected_error: ('too-long'|'bad-choice'|'absent-field', instance, pdf field, offending text)"""
    store = hb_values.ValueStore(vals)
    filing = []
    for name, obj in forms.items():
        try:
            nf = obj.needs_filing(store)
        except Exception as e:
            return None, None, ('needs-filing-raises', name, None, repr(e))
        if nf:
            filing.append(name)
    filing.sort(key=lambda n: (forms[n].jurisdiction, forms[n].sequence_no))
    maps = {}
    err = None
    for name in filing:
        obj = forms[name]
        req = {f.name() for f in obj.required_fields()}
        mp = {}
        pinned = ((limits or {}).get('__mapping__') or {}).get(name.split(':')[0])
        for pf in obj.pdf_fields():
            # which line a box shows: as generated / as pinned from the unchanged tree - the live mapping object is not trusted for it
            declared = pinned.get(pf.pdf_field_name, pf.field_name) if pinned else pf.field_name
            fn = declared if '.' in declared else f'{name}.{declared}'
            if fn not in fields:
                err = err or ('absent-field', name, pf.pdf_field_name, fn)
                break
            if fn in vals:
                # the text before any limit is applied (base-class behaviour), then the limits, independently
                if isinstance(pf, hb_pdf_fields.ButtonPDFField):
                    s = pf.value(vals[fn], fields[fn])
                else:
                    s = hb_pdf_fields.PDFField.value(pf, vals[fn], fields[fn])
                    ml = getattr(pf, 'max_length', None)
                    ch = getattr(pf, '_choices', None)
                    if limits is not None:
                        # limits as pinned (shipped forms) or as generated (synthetic forms): the live mapping objects are not trusted
                        ent = (limits.get(name.split(':')[0]) or {}).get(pf.pdf_field_name) or {}
                        ml = ent.get('max_length', ml if ent == {} and limits.get('__fallback_live__') else ent.get('max_length'))
                        ch = ent.get('choices', ch if limits.get('__fallback_live__') else ent.get('choices'))
                    if ml is not None and len(s) > ml:
                        err = err or ('too-long', name, pf.pdf_field_name, s)
                        break
                    if ch is not None and s not in ch:
                        err = err or ('bad-choice', name, pf.pdf_field_name, s)
                        break
            else:
                s = ''
            mp[pf.pdf_field_name] = s
        if err:
            break
        maps[name] = mp
    return filing, maps, err


def judge_fill(res, forms, vals, fields, flatten, F, limits=None):
    """C19 oracles (a) (b) (c) for one fill.  Returns findings."""
    fs = []
    filing, maps, err = expected_fill(forms, vals, fields, limits)
    fake = res.fake
    if filing is None:
        return fs, {'skipped': err}
    for e in fake.errors:
        fs.append(F('C19', 'C19.cmd', 'bad-command', e))
    # which form instance does a fill belong to: output file name is <instance>.pdf
    filled = [os.path.basename(f['out'])[:-4] if f['out'].endswith('.pdf') else f['out'] for f in fake.fills]
    info = {'filing': filing, 'filled': filled, 'expected_error': err[0] if err else None}
    if err is not None:
        bad_inst = err[1]
        if res.kind == 'return':
            fs.append(F('C19', 'C19.limit', err[0] + '-not-stopped',
                        f'{err[0]}: {err[3]!r} for PDF field {err[2]} of {bad_inst}, but fill-pdfs finished without an error'))
        if bad_inst in filled:
            fs.append(F('C19', 'C19.limit', err[0] + '-written',
                        f'{err[0]}: {err[3]!r} for {err[2]}: form {bad_inst} was handed to the PDF tool nevertheless'))
        for f in fake.fills:
            for t, v in f.get('pairs', []):
                if err[0] == 'too-long' and t == err[2] and v and err[3].startswith(v) and os.path.basename(f['out'])[:-4] == bad_inst:
                    fs.append(F('C19', 'C19.limit', 'truncated', f'value {err[3]!r} appears truncated as {v!r} in field {t}'))
        # forms before the offending one must still be right
        filing = filing[:filing.index(bad_inst)]
    else:
        if res.kind != 'return':
            fs.append(F('C19', 'C19.fill', 'unexpected-abort', f'fill-pdfs aborted: {type(res.exc).__name__}: {str(res.exc)[:200]}'))
            return fs, info
    # (b) exactly the forms that need filing, once each, in order
    if filled != filing:
        extra = [x for x in filled if x not in filing]
        missing = [x for x in filing if x not in filled]
        dup = sorted({x for x in filled if filled.count(x) > 1})
        what = 'duplicate' if dup else 'extra' if extra else 'missing' if missing else 'order'
        fs.append(F('C19', 'C19.forms', what, f'forms handed to the PDF tool {filled}, expected {filing} (by jurisdiction, sequence)'))
    for x in filled:
        obj = forms.get(x)
        if obj is not None and (isinstance(obj, hb_form.InputForm) or not obj.pdf_file()):
            fs.append(F('C19', 'C19.forms', 'input-only-or-no-template', f'{x} is an input-only form or has no template but was filled'))
    # (a) FDF decodes to exactly the mapped text
    for f in fake.fills:
        inst = os.path.basename(f['out'])[:-4]
        if not f.get('template_exists'):
            fs.append(F('C19', 'C19.cmd', 'template-missing', f'template {f["template"]} does not exist'))
        if f['flatten'] != flatten:
            fs.append(F('C19', 'C19.cmd', 'flatten', f'flatten={f["flatten"]} on the command line, requested {flatten}'))
        if inst in forms and f['template'] != forms[inst].pdf_file():
            fs.append(F('C19', 'C19.cmd', 'wrong-template', f'{inst} filled into {f["template"]}, its template is {forms[inst].pdf_file()}'))
        if 'syntax_error' in f:
            fs.append(F('C19', 'C19.fdf', 'syntax', f'FDF for {inst} is not well-formed under PDF string syntax: {f["syntax_error"]}'))
            continue
        want = maps.get(inst)
        if want is None:
            continue
        got = {}
        for t, v in f['pairs']:
            if t in got:
                fs.append(F('C19', 'C19.fdf', 'duplicate-field', f'{inst}: field {t} appears twice in the FDF'))
            got[t] = v
        if got != want:
            diff = [(k, want.get(k), got.get(k)) for k in sorted(set(want) | set(got)) if want.get(k) != got.get(k)]
            what = 'missing-field' if any(g is None for _, _, g in diff) else 'extra-field' if any(w is None for _, w, _ in diff) else 'text'
            fs.append(F('C19', 'C19.fdf', what, f'{inst}: FDF decodes to something else than the mapped text: (field, mapped, decoded) {diff[:3]}'))
    # cat: every filled pdf once, in order, all existing at that moment
    if res.kind == 'return':
        if len(fake.cats) != 1:
            fs.append(F('C19', 'C19.cmd', 'cat-count', f'{len(fake.cats)} cat commands'))
        else:
            c = fake.cats[0]
            names = [os.path.basename(p)[:-4] for p in c['inputs']]
            if names != filing:
                fs.append(F('C19', 'C19.forms', 'cat-order', f'cat inputs {names}, expected {filing}'))
            if c['missing']:
                fs.append(F('C19', 'C19.cmd', 'cat-missing-input', f'cat inputs that do not exist: {c["missing"]}'))
            if c['out'] != res.out:
                fs.append(F('C19', 'C19.cmd', 'cat-output', f'cat output {c["out"]}, requested {res.out}'))
    return fs, info


def judge_readback(solved_stored, solution_text, res, classes_by_name, year, F, cat_types):
    """C14: the typed values the solve produced == what reading the text back yields
    solved_stored: {qualified line: norm-list} from the solving run's event log."""
    fs = []
    try:
        y, forms, vals, fields = own_read(solution_text, classes_by_name)
    except (configparser.Error, KeyError, ValueError) as e:
        return [F('C14', 'C14.read', 'unreadable', f'solution does not read back: {type(e).__name__}: {e}')], {}
    if y != year:
        fs.append(F('C14', 'C14.year', 'tax-year', f'solution says tax_year {y}, solved for {year}'))
    cmp_vals = vals
    source = 'own-from_string'
    if res is not None and res.filler is not None and hasattr(res.filler, '_values'):
        try:
            cmp_vals = dict(res.filler._values.values)
            source = 'PDFFiller._values'
        except Exception:
            pass
    # enumerations by member: a value read back must be a member of the enumeration of the line that reads it
    import enum as _enum
    for q, v in sorted(vals.items()):
        if isinstance(v, _enum.Enum) and hasattr(fields[q], 'enum') and not isinstance(v, fields[q].enum()):
            fs.append(F('C14', 'C14.enum', 'foreign-member', f'{q} reads back as {v!r}, which is not a member of the line\'s own enumeration'))
            break
    if source == 'PDFFiller._values' and hasattr(res.filler, '_field_map'):
        for q, v in sorted(cmp_vals.items()):
            fld = res.filler._field_map.get(q)
            if isinstance(v, _enum.Enum) and fld is not None and hasattr(fld, 'enum') and not isinstance(v, fld.enum()):
                fs.append(F('C14', 'C14.enum', 'foreign-member', f'{q}: the PDF filler holds {v!r}, which is not a member of the enumeration of the line it was read through'))
                break
    for q, nv in sorted(solved_stored.items()):
        if q not in cmp_vals:
            if q in vals or source == 'own-from_string':
                fs.append(F('C14', 'C14.value', 'missing', f'{q} solved as {nv} but absent after reading back ({source})'))
            elif res is not None and res.kind == 'return':
                fs.append(F('C14', 'C14.value', 'missing', f'{q} solved as {nv} but absent after reading back ({source})'))
            continue
        back = core.norm(cmp_vals[q])
        if back == nv:
            continue
        if nv[0] == 's' and back[0] == 's' and nv[1].strip() == back[1].strip():
            continue           # text up to surrounding whitespace
        if nv[0] == 'e' and back[0] == 'e' and nv[2] == back[2]:
            continue           # by member (enum classes may be re-created per form instance)
        fs.append(F('C14', 'C14.value', f'differs:{nv[0]}', f'{q} solved as {nv}, reads back as {back} ({source})'))
    extra = sorted(set(cmp_vals) - set(solved_stored))
    if extra:
        fs.append(F('C14', 'C14.value', 'extra', f'values after reading back that were never solved: {extra[:5]}'))
    # the forms interpreting it are the solving year's
    if res is not None:
        for f in res.fake.fills:
            m = re.search(r'/ty(\d{4})/', f['template'])
            if m and int(m.group(1)) != year:
                fs.append(F('C14', 'C14.year', 'template-year', f'template {f["template"]} used for a {year} solution'))
        if res.filler is not None and hasattr(res.filler, 'forms'):
            # the forms interpreting the solution must come from the solving year's catalogue (judged by catalogue
            # membership, not by the tax_year label a form class carries - labels are C17's business)
            year_classes = set(classes_by_name.values())
            for fo in res.filler.forms:
                if type(fo) not in year_classes:
                    fs.append(F('C14', 'C14.year', 'form-year', f'form {fo.name()} ({type(fo).__module__}) is not from the {year} catalogue'))
    return fs, {'source': source, 'values': len(cmp_vals)}
