"""One module per claimed property: workload mix, oracles selected, N-rule, evidence."""
