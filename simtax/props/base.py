"""Shared pieces of the property modules."""
from .. import core
from .. import shrink

REAL_VS_STUB = {
    'real': ['habutax.solver (Solver, DependencyTracker)', 'habutax.fields', 'habutax.values',
             'habutax.inputs (InputStore on real files, Input.valid/value)', 'habutax.form (Form, InputForm, FormAccessor)',
             'habutax.enum', 'habutax.__init__ (main, solve, prompt_input, fill_pdfs)', 'habutax.pdf_filler',
             'habutax.pdf_fields', 'shipped forms ty2021/ty2022/ty2023', 'configparser', 'file system (tmpfs)'],
    'stub_or_generated': ['the user (scripted stdin / prompt callable)', 'pdftk (in-process fake bound at habutax.pdf_filler.subprocess)',
                          'content of synthetic forms (generated expression trees inside real Form subclasses)',
                          'attempt order (seeded key function bound at habutax.solver.sort_keys)'],
}


def synth_stats(case, run, r1, acc):
    """counters: what actually fired in this run (measured from the event log / outcome)"""
    m = run.monitor
    acc.steps += run.rec.attempts + run.rec.prompts
    acc.count(f'outcome:{run.outcome}/{r1.verdict}')
    ev = run.rec.events
    if any(e[0] == 'RI' and e[3][0] == 'missing' for e in ev):
        acc.count('fault:missing-input')
    if m.refused:
        acc.count('fault:refuse')
    if any(e[0] == 'X' and e[2][0] == 'notimpl' for e in ev):
        acc.count('fault:unimplemented')
    if run.exc is not None:
        t, msg = run.exc
        if t == 'NotImplementedError' and 'not supported' in msg:
            acc.count('fault:unsupported-form')
        elif t == 'SynthLineError':
            acc.count('fault:line-raises')
        elif t == 'TypeError':
            acc.count('fault:wrong-type')
        elif t == 'InvalidInput':
            acc.count('fault:corrupt-value')
        elif t in ('AssertionError', 'RecursionError', 'KeyError', 'LookupError', 'ValueError', 'RuntimeError'):
            acc.count('fault:unknown-name')
        else:
            acc.count(f'fault:abort-{t}')
    if run.outcome == 'failed' and run.unmet_f and not run.unmet_in and not run.unimpl:
        acc.count('fault:cycle')
    if case.get('dup'):
        acc.count('fault:dup-demand')
    if run.rec.sched_seed is not None:
        acc.count('fault:schedule-permuted')
    if case.get('layout') is not None:
        acc.count('fault:layout')
    if m.answered:
        acc.count('fault:split-file/prompt')
    if m.reattempts:
        acc.count('probe:line-reattempted')
    if m.reg_after_meet:
        acc.count('probe:registration-after-meet')
    if m.refused and any(ws for ws in m.reg.values()):
        acc.count('probe:refusal-with-waiters-outstanding')
    if run.outcome == 'abort' and m.prompted:
        acc.count('probe:abort-after-prompts')
    acc.count('seam:sort_keys_calls', run.rec.sort_calls)
    acc.count('seam:accessor_reads', run.rec.accessor_reads)
    acc.count('seam:tracker_events', m.n_reg + m.n_rel)
    acc.add('traces', run.trace_digest())
    acc.add('worlds', core.digest_int(case['world']))


def violation(prop, f, case, seed, engine, **extra):
    v = {'property': prop, 'oracle': f['oracle'], 'key': f['key'], 'msg': f['msg'], 'seed': seed,
         'engine': engine, 'case': case}
    v.update(extra)
    return v


def make_minimiser(evaluate):
    """evaluate(case, engine) -> findings of the property.  Returns minimise(v)."""
    def minimise(v):
        case = v['case']
        if not isinstance(case, dict) or 'world' not in case:
            return v
        oracle = v['oracle']
        engine = v.get('engine')

        def fails(c):
            core.reset_code_state()
            return any(f['oracle'] == oracle for f in evaluate(c, engine))
        small = shrink.shrink_case(case, fails)
        fs = [f for f in evaluate(small, engine) if f['oracle'] == oracle]
        if fs:
            v = dict(v)
            v['case'] = small
            v['msg'] = fs[0]['msg']
            v['key'] = fs[0]['key']
            v['minimised'] = True
        return v
    return minimise


def case_digests(case, run):
    return core.digest_int([case['world'], sorted(run.supplied)])
