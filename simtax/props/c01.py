"""C01 - no silent success.  DESIGN.md section 4 / C01."""
from .. import core, gen, simrun
from . import base

ID = 'C01'
LEVEL = 'exploration'
PLAN = {
    'quick': [('synth', 24000), ('synth_cli', 6000), ('synth_reuse', 5000), ('synth_repair', 3000), ('synth_supply', 3000), ('synth_writeback', 4000), ('shipped', 960)],
    'thorough': [('synth', 900000), ('synth_cli', 200000), ('synth_reuse', 200000), ('synth_repair', 100000), ('synth_supply', 100000), ('synth_writeback', 150000), ('shipped', 40000)],
}
DEADLINE = {'quick': 200, 'thorough': 3300}
PROBES = ['second-solve-on-written-back-file', 'store-reused-after-edit', 'line-reattempted', 'refusal-with-waiters-outstanding', 'abort-after-prompts',
          'not-solved-by-model', 'cli-failure-text-checked']
ASSUMPTIONS = [
    'the reference model R1 (simtax/refmodel.py) is a correct reading of "every demanded line was really computed"',
    'generated line functions are deterministic functions of what they read',
    'an abort (any exception out of solve) is an acceptable way of not succeeding and is never flagged',
]
RULE = ('cases are generated form programs (<=4 forms, <=9 lines/form, <=3 instances) with seeded faults '
        '(unimplemented, raising, unknown names, unsupported forms, cycles, corrupt/missing inputs, refused prompts), '
        'run under seeded attempt orders at solver level and through habutax.main(), plus simulated taxpayers on the '
        'shipped forms; a case is non-trivial if the reference model says the run must NOT be reported as solved '
        '(failed or abort); distinct = distinct (world, final supplied inputs) digests among those')


def cli_script(case, seed):
    r = core.Rng(core.h64('cli', seed))
    cli = {'prompt': case['prompt'], 'writeback': r.chance(0.5), 'solution': r.chance(0.3), 'garble': {},
           'interrupt': None}
    if case.get('refuse_at') is not None and case['prompt']:
        # the user stops answering: Ctrl-C, or the input simply ends (Ctrl-D, piped answers running out)
        cli['interrupt'] = [case['refuse_at'], r.pick(['ctrlc', 'ctrlc', 'eof'])]
    return cli


def eval_writeback(case, acc=None):
    """history: interactive solve with write-back (possibly cut short), then a plain `habutax solve` on the written file.
    What the user supplied is tracked by the harness (initial file + answers actually given) - not read back from the
    file habutax wrote - and the second run is judged against the model on exactly that."""
    import os
    from .. import crash
    from . import c20
    world = c20.synth_world(case)
    path = os.path.join(simrun.scratch_dir(), 'c01_wb.ini')
    crash.write_text(path, c20.initial_text(case, 'synth'))
    h = case['hist']
    run1 = crash.session(world, path, {'prompt': h['prompt'], 'writeback': True, 'solution': False,
                                       'interrupt': [h['refuse_at'], 'ctrlc'] if h.get('refuse_at') is not None else None})
    truth = sorted(set(crash.names_of(run1.before_items)) | set(run1.answers))
    run2 = crash.session(world, path, {'prompt': False, 'writeback': False, 'solution': False})
    noise = {f'{sec}.{key}' for sec, key, _ in case.get('noise') or []}
    run2.supplied = [n for n in truth if n in case['persona'] or n in noise]
    r1 = simrun.model_for(case, run2)
    fs = [f for f in simrun.judge_common(run2, r1) if f['property'] == ID]
    if acc is not None:
        base.synth_stats(case, run2, r1, acc)
        acc.count('probe:second-solve-on-written-back-file')
        if run1.answers:
            acc.count('fault:split-file/prompt')
        if r1.verdict != 'solved':
            acc.count('probe:not-solved-by-model')
            acc.add('nontrivial', base.case_digests(case, run2))
    return fs


def evaluate(case, engine, acc=None):
    if engine == 'synth_writeback':
        return eval_writeback(case, acc)
    if engine == 'synth_reuse':
        # a second solve on the same InputStore after inputs were deleted / re-set through its mapping API
        _, run, case, edits = simrun.execute_reuse(case, case.get('reuse_seed', 0))
        if acc is not None and edits:
            acc.count('probe:store-reused-after-edit')
            acc.count('fault:store-edited-between-solves')
    elif engine == 'synth_repair':
        # solve() aborts on an invalid value in the file, the caller repairs it, solve() again on the same Solver
        run, case = simrun.execute_repair(case, case.get('reuse_seed', 0))
        if run is None:
            if acc is not None:
                acc.count('outcome:no-invalid-input-abort')
            return []
        if acc is not None:
            acc.count('fault:solve-again-after-repaired-input')
            acc.count('probe:solve-again-after-repaired-input')
    elif engine == 'synth_supply':
        # solve() fails for want of inputs, the caller supplies what was named, solve() again on the same Solver
        run, case = simrun.execute_supply(case, case.get('reuse_seed', 0))
        if run is None:
            if acc is not None:
                acc.count('outcome:no-missing-input-failure')
            return []
        if acc is not None:
            acc.count('fault:solve-again-after-supplying-inputs')
            acc.count('probe:solve-again-after-supplying-inputs')
    elif engine == 'synth_cli':
        run = simrun.execute_cli(case, case.get('cli'))
    else:
        run = simrun.execute(case)
    r1 = simrun.model_for(case, run)
    fs = [f for f in simrun.judge(case, run, r1) if f['property'] == ID]
    if engine == 'synth_supply':
        # what a second solve() reports when it FAILS is not defined well enough to be judged (lines of forms loaded on demand
        # keep waiting for inputs that have arrived meanwhile); a claim of success is
        fs = [f for f in fs if f['oracle'] == 'C01.a']
    if engine == 'synth_cli' and run.outcome == 'unknown':
        fs.append(simrun.F(ID, 'C01.cli', 'no-verdict', 'habutax solve returned without printing a verdict'))
    if engine == 'synth_cli' and run.outcome == 'failed' and r1.verdict == 'failed':
        pu, pi, pf = simrun.parse_cli_failure_text(run.stdout)
        if acc is not None:
            acc.count('probe:cli-failure-text-checked')
        if not set(r1.unimpl) <= set(pu):
            fs.append(simrun.F(ID, 'C01.cli', 'unimpl-not-printed', f'unimplemented {sorted(set(r1.unimpl) - set(pu))} not printed'))
        if not set(r1.missing) <= set(pi):
            fs.append(simrun.F(ID, 'C01.cli', 'missing-not-printed', f'missing inputs {sorted(set(r1.missing) - set(pi))} not printed'))
        named = set()
        for d in (pi, pf):
            for v in d.values():
                named |= set(v)
        need = set()
        for v in list(r1.missing.values()) + list(r1.blocked.values()):
            need |= v
        if not need <= named:
            fs.append(simrun.F(ID, 'C01.cli', 'blocked-not-printed', f'blocked lines {sorted(need - named)} not printed'))
    if acc is not None:
        base.synth_stats(case, run, r1, acc)
        if r1.verdict != 'solved':
            acc.count('probe:not-solved-by-model')
            acc.add('nontrivial', base.case_digests(case, run))
        acc.sample({'engine': engine, 'requested': case['requested'], 'faults': case['faults'],
                    'forms': [f['name'] for f in case['world']['forms']], 'real': run.outcome,
                    'model': r1.summary(), 'sched': case['sched'], 'prompts': len(run.monitor.prompted)})
    return fs


def run_one(engine, seed, acc, tier):
    if engine == 'shipped':
        from . import shipped_props
        return shipped_props.run_one(ID, seed, acc, tier)
    r0 = core.Rng(core.h64('c01mix', seed))
    if engine in ('synth', 'synth_cli') and r0.chance(0.3):
        # fault mixes aimed at the clauses of the success test: lines that need each other, with something computed twice
        case = gen.gen_case(seed, force_faults=r0.pick([['dup', 'cycle'], ['dup', 'selfref'], ['dup', 'cycle', 'notimpl'],
                                                        ['cycle', 'selfref'], ['dup', 'missing'], ['dup', 'cycle', 'refuse']]))
    else:
        case = gen.gen_case(seed)
    if engine == 'synth_cli':
        case['cli'] = cli_script(case, seed)
    if engine == 'synth_reuse':
        case['reuse_seed'] = seed
    if engine == 'synth_supply':
        case = gen.gen_case(seed, force_faults=r0.pick([['missing'], ['missing'], ['missing', 'notimpl'], ['missing', 'dup']]))
        case['reuse_seed'] = seed
    if engine == 'synth_repair':
        case = gen.gen_case(seed, force_faults=r0.pick([['corrupt'], ['corrupt'], ['corrupt', 'notimpl'], ['corrupt', 'missing']]))
        case['reuse_seed'] = seed
    if engine == 'synth_writeback':
        r = core.Rng(core.h64('c01wb', seed))
        case['hist'] = {'prompt': r.chance(0.8), 'refuse_at': r.pick([None, 0, 0, 1, 2])}
        case['file'] = [n for n in case['file'] if r.chance(0.6) or case['persona'][n]['invalid'] or '\n' in case['persona'][n]['text']]
    for f in evaluate(case, engine, acc):
        acc.violation(base.violation(ID, f, case, seed, engine))


def replay(rec):
    if rec.get('engine') == 'shipped':
        from . import shipped_props
        return shipped_props.replay(ID, rec)
    return evaluate(rec['case'], rec.get('engine'))


_min_synth = base.make_minimiser(lambda c, e: evaluate(c, e))


def minimise(v):
    if str(v.get('engine', '')).startswith('shipped'):
        from . import shipped_props
        return shipped_props.minimise(ID, v)
    return _min_synth(v)


def coverage(accs, total):
    return {
        'distinct_nontrivial': len(total.sets.get('nontrivial', ())),
        'rule': RULE,
        'samples': total.samples,
        'real_vs_stub': base.REAL_VS_STUB,
        'distinct_attempt_traces': len(total.sets.get('traces', ())),
    }

MANIFEST = {
    'level': 'exploration',
    'technique': 'deterministic simulation: seeded schedules + fault injection vs. naive reference solver (R1)',
    'text': ('Seeded search over generated form programs and simulated taxpayer sessions with injected faults '
             '(unimplemented / raising / wrong names / unsupported forms / cycles / corrupt, missing and refused inputs) '
             'under permuted attempt orders; every run is judged against an order-independent reference solver run on '
             "the run's final inputs, at the Solver API and at the text `habutax solve` prints. Sampling, not proof: "
             'right for a property quantified over all programs and input assignments.'),
    'note': ('Trusts the reference model R1 and the shared expression evaluator of generated lines; shipped-world '
             'runs share the line definitions with the system under test (they judge the solver, not the tax arithmetic).'),
}
