"""C03 - every value in a solution is a fixed point of its line definition.  DESIGN.md 4 / C03."""
from .. import core, gen, simrun
from . import base

ID = 'C03'
LEVEL = 'exploration'
PLAN = {
    'quick': [('synth', 26000), ('synth_reuse', 5000), ('synth_cli_solution', 6000), ('shipped', 640), ('shipped_after', 320)],
    'thorough': [('synth', 1000000), ('synth_reuse', 200000), ('synth_cli_solution', 100000), ('shipped', 28000), ('shipped_after', 12000)],
}
DEADLINE = {'quick': 200, 'thorough': 3300}
PROBES = ['solution-file-rewritten-over-older-one', 'store-reused-after-edit', 'line-reattempted', 'partial-solution-checked', 'prompt-interleaved-with-computation']
ORACLES = {'H1', 'H2', 'C03.model', 'C03.stored', 'C03.final'}
ASSUMPTIONS = [
    'synthetic world: the model re-derives every value with its own interpreter context, name qualification and rounding',
    'shipped world: re-evaluation uses the line definitions themselves (the statement\'s own criterion); a wrong definition is invisible here',
]
RULE = ('generated form programs and simulated taxpayers under seeded attempt orders (fixed permutation, reshuffle every 1 or 3 '
        'attempts), duplicate demands and prompts interleaved with computation; every stored value of every complete or partial '
        'solution is re-derived from the final inputs; reads are checked online against what the read line\'s evaluation returned. '
        'Non-trivial: runs in which at least one line was attempted more than once (a line that never had to wait cannot see a '
        'stale view); distinct = distinct attempt-trace digests among those')


def eval_cli_solution(case, acc=None):
    """`habutax solve --solution S` twice into the same file (an earlier return, then this one): the file must hold exactly
    this run's solution - every value re-derivable from this run's inputs, nothing left over from the earlier one"""
    import configparser
    pre = case.get('prelude')
    if pre:
        simrun.execute_cli(pre, {'prompt': True, 'writeback': False, 'solution': True})
    run = simrun.execute_cli(case, {'prompt': True, 'writeback': bool(case.get('writeback')), 'solution': True,
                                    'keep_old_solution': bool(pre), 'fickle': True})
    # (a user who is asked the same question twice answers differently the second time: the last answer is the final input)
    case = dict(case, persona=run.final_persona)
    fs = []
    if case.get('writeback') and run.file_after is not None and run.outcome in ('solved', 'failed'):
        # "the final inputs": what the input file holds when the command is done must still denote the values the solution
        # was computed from (read through the input's own definition, on a fresh object)
        from .. import crash, synth
        try:
            import configparser as _cp
            cfg_ = _cp.ConfigParser()          # as the next `habutax solve` will read it
            cfg_.read_string(run.file_after)
            after = {(sec, k): cfg_.get(sec, k) for sec in cfg_.sections() for k in cfg_[sec]}
        except Exception:
            after = None
        if after is not None:
            enums = synth.build_enums(case['world'])
            for (sec, key), txt in sorted(after.items()):
                q = f'{sec}.{key}'
                p_ = case['persona'].get(q)
                spec = simrun.input_spec_of(case['world'], q)
                if p_ is None or spec is None or p_.get('invalid') or p_.get('stray'):
                    continue
                inp = synth._make_input(spec, enums)
                try:
                    if p_.get('raw'):
                        # a %(name)s reference: what it denotes is the referenced input's text
                        if not inp.valid(txt):
                            continue
                        a, b = list(p_['typed']), core.norm(inp.value(txt))
                    else:
                        if not inp.valid(p_['text']) or not inp.valid(txt):
                            continue
                        a, b = core.norm(inp.value(p_['text'])), core.norm(inp.value(txt))
                except Exception:
                    continue
                if a != b:
                    fs.append(simrun.F(ID, 'C03.final', 'inputs-rewritten',
                                       f'{q} was supplied as {p_["text"]!r} ({a}); the input file now says {txt!r} ({b}): the solution '
                                       f'is no longer what the final inputs yield'))
                    break
        if acc is not None:
            acc.count('fault:inputs-written-back')
    if run.outcome in ('solved', 'failed') and run.solution_file is not None:
        r1 = simrun.model_for(case, run)
        try:
            cfg = configparser.ConfigParser(interpolation=None)
            cfg.read_string(run.solution_file)
            got = {f'{sec}.{k}': cfg.get(sec, k) for sec in cfg.sections() if sec != 'habutax' for k in cfg[sec]}
        except configparser.Error as e:
            return [simrun.F(ID, 'C03.file', 'unreadable', f'solution file is not well-formed: {type(e).__name__}: {str(e)[:150]}')]
        want = {}
        for q, nv in r1.values.items():
            l = simrun.line_spec(case['world'], q)
            if l is not None:
                want[q] = simrun.expected_text(l, nv).strip()
        if r1.verdict != 'abort' and {k: v.strip() for k, v in got.items()} != want:
            extra = sorted(set(got) - set(want))
            missing = sorted(set(want) - set(got))
            diff = sorted(k for k in set(got) & set(want) if got[k].strip() != want[k])
            fs.append(simrun.F(ID, 'C03.file', 'stale-or-wrong', f'solution file differs from the re-derived solution: extra {extra[:4]} '
                                                               f'missing {missing[:4]} different {diff[:4]}'))
        if acc is not None:
            acc.count('probe:solution-file-rewritten-over-older-one')
            acc.add('nontrivial', core.digest_int(['clisol', case['world'], sorted(run.supplied)]))
    if acc is not None:
        acc.steps += run.rec.attempts + run.rec.prompts
        acc.count(f'outcome:cli-solution-{run.outcome}')
    return fs


def evaluate(case, engine, acc=None):
    if engine == 'synth_cli_solution':
        return eval_cli_solution(case, acc)
    if engine == 'synth_reuse':
        _, run, case, edits = simrun.execute_reuse(case, case.get('reuse_seed', 0))
        if acc is not None and edits:
            acc.count('probe:store-reused-after-edit')
            acc.count('fault:store-edited-between-solves')
    else:
        run = simrun.execute(case)
    r1 = simrun.model_for(case, run)
    fs = [f for f in simrun.judge(case, run, r1) if f['oracle'] in ORACLES]
    for f in fs:
        f['property'] = ID
    if acc is not None:
        base.synth_stats(case, run, r1, acc)
        if run.monitor.reattempts:
            acc.add('nontrivial', run.trace_digest())
        if run.outcome == 'failed' and run.solution:
            acc.count('probe:partial-solution-checked')
        if run.monitor.answered and run.monitor.reattempts:
            acc.count('probe:prompt-interleaved-with-computation')
        if case.get('defaults'):
            acc.count('fault:default-section')
        acc.sample({'engine': engine, 'sched': case['sched'], 'real': run.outcome, 'values': len(simrun.flat_solution(run)),
                    'reattempts': run.monitor.reattempts, 'reads_checked': run.monitor.n_reads,
                    'solution': dict(list(simrun.flat_solution(run).items())[:5])})
    return fs


def run_one(engine, seed, acc, tier):
    if engine in ('shipped', 'shipped_after'):
        from . import shipped_props
        return shipped_props.run_one(ID, seed, acc, tier, level='after' if engine == 'shipped_after' else None)
    rng = core.Rng(core.h64('c03', seed))
    case = gen.gen_case(seed, clean=rng.chance(0.45), defaults=(engine == 'synth' and rng.chance(0.22)))
    if case['sched'][0] is None or rng.chance(0.5):
        case['sched'] = [rng.randrange(1 << 32), rng.pick([1, 1, 3, 0])]
    if engine == 'synth_reuse':
        case['reuse_seed'] = seed
    if engine == 'synth_cli_solution':
        case['field_names'] = []
        case['prompt'] = True
        case['refuse_at'] = None
        pre = gen.gen_case(core.h64('prelude', seed), clean=True)
        pre['field_names'] = []
        pre['prompt'] = True
        pre['refuse_at'] = None
        case['prelude'] = pre
        case['writeback'] = rng.chance(0.5)
        if rng.chance(0.2):
            # a value in the file that refers to another input of the same section (configparser's %(name)s), which is only
            # supplied at the prompt: until then the reference cannot be resolved
            pairs = []
            for fs_ in case['world']['forms']:
                strs = [i_['name'] for i_ in fs_['inputs'] if i_['type'] == 'str']
                for inst_ in gen.instances_of(fs_):
                    for a_ in strs:
                        for b_ in strs:
                            na, nb = gen.qual(fs_, inst_, a_), gen.qual(fs_, inst_, b_)
                            if a_ != b_ and not case['persona'][nb]['invalid'] and not case['persona'][na]['invalid'] \
                                    and '%' not in case['persona'][nb]['text'] and '\n' not in case['persona'][nb]['text'] \
                                    and case['persona'][nb]['text'].strip():
                                pairs.append((na, nb, b_))
            if pairs:
                na, nb, b_ = rng.pick(pairs)
                case['ref_pair'] = [na, nb]
                case['persona'][na] = {'text': f'%({b_})s', 'typed': ['s', case['persona'][nb]['text'].strip()], 'invalid': False, 'raw': True}
                if na not in case['file']:
                    case['file'].append(na)
                case['file'] = [n for n in case['file'] if n != nb]
        # answers that are an empty line (a legal way to say 0 / nothing) for some of the questions
        for n in sorted(case['persona']):
            spec = simrun.input_spec_of(case['world'], n) or {}
            if n not in case['file'] and not case['persona'][n]['invalid'] and not spec.get('count') and rng.chance(0.35) \
                    and n not in (case.get('ref_pair') or []):
                z = {'int': ['i', 0], 'float': ['f', '0.0'], 'str': ['s', '']}.get(spec.get('type'))
                if z:
                    case['persona'][n] = {'text': '', 'typed': z, 'invalid': False}
    for f in evaluate(case, engine, acc):
        acc.violation(base.violation(ID, f, case, seed, engine))


def replay(rec):
    if str(rec.get('engine', '')).startswith('shipped'):
        from . import shipped_props
        return shipped_props.replay(ID, rec)
    return evaluate(rec['case'], rec.get('engine'))


_min_synth = base.make_minimiser(lambda c, e: evaluate(c, e))


def minimise(v):
    if str(v.get('engine', '')).startswith('shipped'):
        from . import shipped_props
        return shipped_props.minimise(ID, v)
    return _min_synth(v)


def coverage(accs, total):
    return {'distinct_nontrivial': len(total.sets.get('nontrivial', ())), 'rule': RULE, 'samples': total.samples,
            'real_vs_stub': base.REAL_VS_STUB, 'distinct_attempt_traces': len(total.sets.get('traces', ()))}


MANIFEST = {
    'level': 'exploration',
    'technique': 'deterministic simulation: permuted attempt orders, read-history monitor + re-derivation by reference model',
    'text': ('Seeded search over attempt orders (the scheduler seam reshuffles queue, release and prompt order), duplicate '
             'demands and prompt/computation interleavings; online check that every read returns exactly what the read '
             "line's completed evaluation returned, and end-of-run re-derivation of every stored value of complete and "
             'partial solutions from the final inputs by the order-independent reference model.'),
    'note': ('Trusts R1; for shipped forms re-derivation uses the same line definitions (statement\'s own criterion); a bug that '
             'changes value and re-derivation alike (e.g. in a line definition) is out of scope.'),
}
