"""C04 - a solution is exactly the demand closure of the requested forms.  DESIGN.md 4 / C04."""
from .. import core, gen, simrun
from . import base

ID = 'C04'
LEVEL = 'exploration'
PLAN = {
    'quick': [('synth', 22000), ('synth_resolve', 5000), ('synth_repair', 3000), ('synth_cli', 6000), ('shipped', 640), ('shipped_cli', 240)],
    'thorough': [('synth', 900000), ('synth_resolve', 200000), ('synth_repair', 100000), ('synth_cli', 200000), ('shipped', 30000), ('shipped_cli', 8000)],
}
DEADLINE = {'quick': 200, 'thorough': 3300}
PROBES = ['solve-called-again-after-failure', 'input-only-load-then-full', 'optional-line-demanded', 'form-loaded-on-demand', 'foreign-input-read-without-participation']
ORACLES = {'C04.output', 'C04.model', 'C04.history', 'C04.unknown'}
ASSUMPTIONS = [
    'closure = required lines of every participating form instance + every line read + explicitly requested lines; a form instance '
    'participates iff it was requested or one of its lines was read; reading only *inputs* of a form does not make it participate',
]
RULE = ('successful solves of generated form programs (data-dependent branches deciding which form/copy is referenced, '
        'multi-instance counts 0-3, forms first loaded input-only and later fully) and of simulated taxpayers on shipped forms; '
        'the set of lines in the solution is compared with the model\'s demand closure and with the closure recomputed from the '
        'recorded read history of the real run. Non-trivial: solved runs with >=2 participating form instances or >=1 optional line; '
        'distinct = distinct (participating form instances, optional lines present) sets')


def evaluate(case, engine, acc=None):
    if engine == 'synth_cli':
        to_file = bool(case.get('cli_solution_file'))
        if case.get('cli_prelude'):
            # an earlier `habutax solve` of another return in the same process, reporting the same way
            try:
                simrun.execute_cli(case['cli_prelude'], {'prompt': True, 'writeback': False, 'solution': to_file})
            except (core.RunTimeout, core.BudgetExceeded):
                pass
        run = simrun.execute_cli(case, {'prompt': case['prompt'], 'writeback': False, 'solution': to_file,
                                        # (the earlier return's solution file is still there, at the same path)
                                        'keep_old_solution': bool(case.get('cli_prelude')) and to_file,
                                        'interrupt': [case['refuse_at'], 'ctrlc'] if case.get('refuse_at') is not None else None})
    elif engine == 'synth_repair':
        # solve() aborts on an unreadable value, the caller repairs it, solve() again on the same Solver
        run, case = simrun.execute_repair(case, case.get('reuse_seed', 0))
        if run is None:
            return []
        if acc is not None:
            acc.count('fault:solve-again-after-repaired-input')
    elif engine == 'synth_resolve':
        run = simrun.execute(case, again=case.get('again', []))
        if acc is not None and getattr(run, 'first_failed', False):
            acc.count('probe:solve-called-again-after-failure')
            acc.count('fault:solve-called-twice')
    else:
        run = simrun.execute(case)
    r1 = simrun.model_for(case, run)
    fs = [f for f in simrun.judge(case, run, r1) if f['oracle'] in ORACLES]
    if engine == 'synth_repair':
        # the read history of the second call alone does not explain lines computed by the first: judged by the model only
        fs = [f for f in fs if f['oracle'] != 'C04.history']
    for f in fs:
        f['property'] = ID
    if engine == 'synth_cli' and run.outcome == 'solved' and r1.verdict != 'abort':
        # the solution as the user gets it (printed, or written with --solution) holds exactly the demanded lines as well
        import configparser
        try:
            if case.get('cli_solution_file'):
                cfg = configparser.ConfigParser()
                cfg.read_string(run.solution_file or '')
            else:
                cfg = simrun.parse_cli_solution(run.stdout)
            got = {f'{sec}.{k}' for sec in cfg.sections() if sec != 'habutax' for k in cfg[sec]}
        except configparser.Error as e:
            got = None
            fs.append(simrun.F(ID, 'C04.output', 'unreadable', f'the solution handed to the user is not well-formed: {type(e).__name__}: {str(e)[:120]}'))
        if got is not None and got != set(r1.demanded):
            fs.append(simrun.F(ID, 'C04.output', 'closure-output',
                               f'the solution handed to the user ({"--solution file" if case.get("cli_solution_file") else "stdout"}) differs '
                               f'from the demand closure: extra {sorted(got - set(r1.demanded))[:6]} missing {sorted(set(r1.demanded) - got)[:6]}'))
    if acc is not None:
        base.synth_stats(case, run, r1, acc)
        if run.outcome == 'solved':
            flat = simrun.flat_solution(run)
            forms = sorted(set(q.split('.')[0] for q in flat))
            opt = []
            for q in flat:
                fs_ = next((f for f in case['world']['forms'] if f['name'] == q.split('.')[0].split(':')[0]), None)
                if fs_ and any(l['name'] == q.split('.')[1] for l in fs_['optional']):
                    opt.append(q)
            if opt:
                acc.count('probe:optional-line-demanded')
            if set(forms) - set(run.requested):
                acc.count('probe:form-loaded-on-demand')
            readers = set(e[2].split('.')[0] for e in run.rec.events if e[0] == 'RI' and e[3][0] == 'ok')
            if readers - set(forms):
                acc.count('probe:foreign-input-read-without-participation')
            nospec = set(e[2][1].split('.')[0] for e in run.rec.events if e[0] == 'X' and e[2][0] == 'nospec')
            if nospec & set(forms):
                acc.count('probe:input-only-load-then-full')
            if len(forms) >= 2 or opt:
                acc.add('nontrivial', core.digest_int([forms, sorted(opt)]))
            acc.sample({'engine': engine, 'requested': run.requested, 'forms_in_solution': forms, 'optional_lines': sorted(opt)[:6],
                        'lines': len(flat)})
    return fs


def run_one(engine, seed, acc, tier):
    if engine in ('shipped', 'shipped_cli'):
        from . import shipped_props
        return shipped_props.run_one(ID, seed, acc, tier, level='cli' if engine == 'shipped_cli' else None)
    rng = core.Rng(core.h64('c04', seed))
    case = gen.gen_case(seed, clean=rng.chance(0.8), percent=(engine == 'synth' and rng.chance(0.1)))
    if rng.chance(0.8 if engine != 'synth_cli' else 0.5):
        # success needs every input: supply or prompt for all of them
        case['prompt'] = True
        case['refuse_at'] = None
    if engine == 'synth_repair':
        case = gen.gen_case(seed, force_faults=rng.pick([['corrupt'], ['corrupt'], ['corrupt', 'dup']]))
        case['reuse_seed'] = seed
    if engine == 'synth_resolve':
        # failures are what matters here: something unimplemented, missing or refused, then solve() again
        case = gen.gen_case(seed, force_faults=rng.pick([['notimpl'], ['notimpl', 'missing'], ['missing'], ['refuse'], ['cycle'], ['notimpl', 'dup']]))
        case['again'] = []
        others = [f for f in case['world']['forms'] if f['name'] not in [r.split(':')[0] for r in case['requested']]]
        if others and rng.chance(0.5):
            o = rng.pick(others)
            case['again'] = [f"{o['name']}:{rng.pick(['0', '1', '2'])}" if o['multi'] else o['name']]
    if engine == 'synth_cli':
        case['cli_solution_file'] = rng.chance(0.5)
        if rng.chance(0.4):
            pre = gen.gen_case(core.h64('c04prelude', seed), clean=True)
            pre['prompt'] = True
            pre['refuse_at'] = None
            pre['field_names'] = []
            case['cli_prelude'] = pre
    if engine == 'synth_cli' and len(case['world']['forms']) > 1 and len(case['requested']) == 1 and rng.chance(0.5):
        # several --form arguments
        for fs in case['world']['forms'][1:]:
            if rng.chance(0.6):
                case['requested'].append(f"{fs['name']}:{rng.pick(['0', '1', '2'])}" if fs['multi'] else fs['name'])
    for f in evaluate(case, engine, acc):
        acc.violation(base.violation(ID, f, case, seed, engine))


def replay(rec):
    if rec.get('engine') in ('shipped', 'shipped_cli'):
        from . import shipped_props
        return shipped_props.replay(ID, rec)
    return evaluate(rec['case'], rec.get('engine'))


_min_synth = base.make_minimiser(lambda c, e: evaluate(c, e))


def minimise(v):
    if str(v.get('engine', '')).startswith('shipped'):
        from . import shipped_props
        return shipped_props.minimise(ID, v)
    return _min_synth(v)


def coverage(accs, total):
    return {'distinct_nontrivial': len(total.sets.get('nontrivial', ())), 'rule': RULE, 'samples': total.samples,
            'real_vs_stub': base.REAL_VS_STUB}


MANIFEST = {
    'level': 'exploration',
    'technique': 'deterministic simulation: read-history closure + reference-model demand closure on simulated solves',
    'text': ('The statement is causal (a line appears only because something evaluated referred to it), i.e. about the read '
             'history of a run. Seeded runs record every read; for each successful solve the solution\'s line set must equal '
             'both the closure recomputed from that history and the demand set of the order-independent reference model.'),
    'note': 'Trusts the recording accessor seam (habutax.form.FormAccessor) and R1; only successful solves are judged.',
}
