"""C05 - the result depends only on year, requested forms and input values.  DESIGN.md 4 / C05."""
import copy

from .. import core, gen, simrun
from . import base

ID = 'C05'
LEVEL = 'exploration'
PLAN = {
    'quick': [('synth_group', 9000), ('shipped_group', 160)],
    'thorough': [('synth_group', 120000), ('shipped_group', 6000)],
}
DEADLINE = {'quick': 200, 'thorough': 3300}
PROBES = ['group-with-distinct-traces', 'split-variant', 'layout-variant', 'form-order-variant', 'cli-variant',
          'refusal-variant', 'failed-group', 'aborting-group']
ASSUMPTIONS = [
    'runs are compared when their final supplied inputs are equal; runs with a refusal are judged against the reference model on '
    'their own final inputs (which inputs were supplied when the user walked away legitimately depends on prompt order)',
    'for aborting runs only abort-ness is compared (which of several failing lines is hit first is schedule-dependent by nature)',
    'attempt orders reachable through the sort_keys seam are the orders the real loop can take under some naming of its lines',
]
RULE = ('for one (world or tax year, requested forms, persona) a group of 6-12 runs differing only in what must not matter: attempt '
        'order (seeded permutation, reshuffled every 1/3/never), order of requested forms, input-file layout (section/key order, '
        'delimiters, spacing, comments, key case, CRLF), split of the same inputs between file and prompt, Solver API vs '
        '`habutax solve`. All runs with equal final inputs must agree on verdict, solution, unimplemented lines and both unmet-'
        'dependency maps, and each must equal the reference model. Non-trivial: groups with >=2 distinct attempt traces; distinct = '
        'distinct attempt-trace digests inside such groups')


class Hung(object):
    """stands in for a run that did not finish (budget / CPU alarm): an outcome like any other for comparison"""
    outcome = 'no-termination'
    exc = None
    solution = None
    unimpl = unmet_in = unmet_f = None

    def __init__(self, supplied, e):
        from ..monitor import Monitor
        self.supplied = list(supplied)
        self.input_texts = {}
        self.monitor = Monitor()
        self.why = f'{type(e).__name__}: {e}'

        class R(object):
            attempts = prompts = sort_calls = 0
            sched_seed = None
            events = []
        self.rec = R()

    def trace_digest(self):
        return 0


def guarded(fn, supplied):
    try:
        return fn()
    except (core.RunTimeout, core.BudgetExceeded) as e:
        return Hung(supplied, e)


def observable(run):
    if run.outcome == 'no-termination':
        return ('no-termination',)
    if run.outcome == 'abort':
        return ('abort',)
    return (run.outcome, core.canon(run.solution), sorted(set(run.unimpl)),
            sorted((k, sorted(set(v))) for k, v in run.unmet_in.items()),
            sorted((k, sorted(set(v))) for k, v in run.unmet_f.items()))


def variants(case, seed, n):
    """explicit list of variant descriptors (JSON-able)"""
    rng = core.Rng(core.h64('c05v', seed))
    out = []
    for k in range(n):
        v = {'sched': [rng.randrange(1 << 32), rng.pick([0, 1, 3])] if rng.chance(0.8) else [None, 0],
             'layout': rng.randrange(1 << 32) if rng.chance(0.6) else None,
             'split': rng.pick(['same', 'allfile', 'reprompt', 'reprompt']),
             'split_seed': rng.randrange(1 << 32),
             'form_order': rng.randrange(1 << 32) if rng.chance(0.5) else None,
             'level': 'cli' if (not case['field_names'] and rng.chance(0.3)) else 'api'}
        if v['level'] == 'api' and rng.chance(0.15):
            # the InputStore has served another Solver before (an older version of the forms, in which one input was plain text)
            v['prior'] = rng.randrange(1 << 32)
        out.append(v)
    return out


def run_variant(case, base_run, v):
    c = case
    supplied = base_run.supplied
    read_ok = sorted({e[2] for e in base_run.rec.events if e[0] == 'RI' and e[3][0] == 'ok'})
    if v['split'] == 'same':
        names, prompt = list(case['file']), case['prompt']
    elif v['split'] == 'allfile':
        names, prompt = list(supplied), False
    else:
        r = core.Rng(core.h64('split', v['split_seed']))
        drop = {n for n in read_ok if r.chance(0.5) and not case['persona'][n]['invalid']}
        names, prompt = [n for n in supplied if n not in drop], True
    req = list(case['requested'])
    if v['form_order'] is not None and len(req) > 1:
        core.Rng(core.h64('fo', v['form_order'])).shuffle(req)
    layout = v['layout']
    if v['level'] == 'cli':
        c2 = dict(case, sched=v['sched'], requested=req)
        run = simrun.execute_cli(c2, {'prompt': prompt, 'writeback': False, 'solution': False}, names=names, layout=layout)
    else:
        store = None
        if v.get('prior') is not None:
            import copy
            r = core.Rng(core.h64('prior', v['prior']))
            alt = copy.deepcopy(case)
            cands = [(fs_, i_) for fs_ in alt['world']['forms'] for i_ in fs_['inputs']
                     if i_['type'] in ('bool', 'int', 'float', 'enum', 'enum_empty') and not i_.get('count')]
            if cands:
                fs_, i_ = r.pick(cands)
                for k_ in [k_ for k_ in i_ if k_ != 'name']:
                    del i_[k_]
                i_['type'] = 'str'
                for n_, p_ in alt['persona'].items():
                    if n_.split('.')[0].split(':')[0] == fs_['name'] and n_.split('.')[1] == i_['name']:
                        p_['typed'], p_['invalid'] = ['s', p_['text'].strip()], False
            try:
                first = simrun.execute(alt, sched=v['sched'], names=names, prompt=False, layout=layout, requested=req)
                store = first.store
            except (core.RunTimeout, core.BudgetExceeded):
                store = None
        run = simrun.execute(case, sched=v['sched'], names=names, prompt=prompt,
                             refuse_at=(case['refuse_at'] if v['split'] == 'same' else None),
                             layout=layout, requested=req, store=store)
    return run


def evaluate(case, engine, acc=None):
    fs = []
    base_run = simrun.execute(case)
    runs = [('base', base_run)]
    refused = base_run.monitor.refused
    for v in case['variants']:
        if refused and v['split'] != 'same':
            # the base session was cut short: only attempt-order/layout variants of the *same* session are comparable by model
            v = dict(v, split='same')
        runs.append((v, guarded(lambda: run_variant(case, base_run, v), base_run.supplied)))
    # each run against the model on its own final inputs
    for tag, run in runs:
        if run.outcome == 'no-termination':
            continue
        r1 = simrun.model_for(case, run)
        for f in simrun.judge(case, run, r1):
            if f['oracle'] in ('C05.model', 'P1'):
                f = dict(f, msg=f'variant {tag}: ' + f['msg'])
                fs.append(f)
            elif f['oracle'] == 'C03.model':
                # "every solved value ... is a function of year, forms and input values alone": the model is that function
                fs.append(dict(f, property=ID, oracle='C05.values', msg=f'variant {tag}: ' + f['msg']))
        if (run.outcome == 'abort') != (r1.verdict == 'abort'):
            fs.append(simrun.F(ID, 'C05.abort', 'abort-ness', f'variant {tag}: run {run.outcome} {run.exc}, model {r1.verdict} {r1.summary()["aborts"]}'))
    # runs with equal final inputs against each other (independent of the model)
    by_inputs = {}
    for tag, run in runs:
        by_inputs.setdefault(tuple(run.supplied), []).append((tag, run))
    for sup, grp in by_inputs.items():
        o0 = observable(grp[0][1])
        for tag, run in grp[1:]:
            o = observable(run)
            if o != o0:
                what = 'verdict' if o[0] != o0[0] else 'solution' if o[1] != o0[1] else 'diagnostics'
                fs.append(simrun.F(ID, 'C05.group', what,
                                   f'variants {grp[0][0]} and {tag} have equal final inputs but differ in {what}: '
                                   f'{str(o0)[:300]} vs {str(o)[:300]}'))
                break
    if acc is not None:
        traces = {run.trace_digest() for _, run in runs}
        acc.steps += sum(run.rec.attempts + run.rec.prompts for _, run in runs)
        acc.count('outcome:' + base_run.outcome)
        if len(traces) >= 2:
            acc.count('probe:group-with-distinct-traces')
            for t in traces:
                acc.add('nontrivial', t)
        for v in case['variants']:
            if v['split'] != 'same' and not refused:
                acc.count('probe:split-variant')
            if v['layout'] is not None:
                acc.count('probe:layout-variant')
            if v['form_order'] is not None and len(case['requested']) > 1:
                acc.count('probe:form-order-variant')
            if v['level'] == 'cli':
                acc.count('probe:cli-variant')
        if refused:
            acc.count('probe:refusal-variant')
        if base_run.outcome == 'failed':
            acc.count('probe:failed-group')
        if base_run.outcome == 'abort':
            acc.count('probe:aborting-group')
        acc.count('seam:sort_keys_calls', sum(run.rec.sort_calls for _, run in runs))
        acc.count('fault:schedule-permuted', sum(1 for _, run in runs if run.rec.sched_seed is not None))
        acc.sample({'engine': engine, 'group_size': len(runs), 'distinct_traces': len(traces), 'verdict': base_run.outcome,
                    'variants': case['variants'][:3], 'final_input_sets': len(by_inputs)})
    return fs


def run_one(engine, seed, acc, tier):
    if engine == 'shipped_group':
        from . import shipped_props
        return shipped_props.run_one(ID, seed, acc, tier)
    rng = core.Rng(core.h64('c05', seed))
    case = gen.gen_case(seed, clean=rng.chance(0.5))
    case['variants'] = variants(case, seed, rng.pick([5, 7, 9, 11]))
    for f in evaluate(case, engine, acc):
        acc.violation(base.violation(ID, f, case, seed, engine))


def replay(rec):
    if rec.get('engine') == 'shipped_group':
        from . import shipped_props
        return shipped_props.replay(ID, rec)
    return evaluate(rec['case'], rec.get('engine'))


def _min_eval(c, e):
    if 'variants' not in c:
        c = dict(c, variants=[])
    return evaluate(c, e)


_shr = base.make_minimiser(_min_eval)


def minimise(v):
    if str(v.get('engine', '')).startswith('shipped'):
        from . import shipped_props
        return shipped_props.minimise(ID, v)
    # first reduce the group to the fewest variants that still disagree
    case = v['case']
    oracle = v['oracle']
    vs = list(case['variants'])
    k = len(vs) - 1
    while k >= 0 and len(vs) > 1:
        cand = vs[:k] + vs[k + 1:]
        try:
            if any(f['oracle'] == oracle for f in evaluate(dict(case, variants=cand), v.get('engine'))):
                vs = cand
        except (Exception, core.HarnessError):
            pass
        k -= 1
    v = dict(v, case=dict(case, variants=vs))
    return _shr(v)


def coverage(accs, total):
    return {'distinct_nontrivial': len(total.sets.get('nontrivial', ())), 'rule': RULE, 'samples': total.samples,
            'real_vs_stub': base.REAL_VS_STUB,
            'seam_active': {'sort_keys': total.counters.get('seam:sort_keys_calls', 0) > 0}}


MANIFEST = {
    'level': 'exploration',
    'technique': 'deterministic simulation: groups of runs under permuted schedules/layouts/splits, pairwise + reference-model agreement',
    'text': ('Seeded search over everything the statement says must not matter: attempt order (scheduler seam at '
             'habutax.solver.sort_keys, no repo hook needed), order of requested forms, input-file layout, file/prompt split, API vs '
             'CLI. Runs of a group with equal final inputs are compared with each other and every run with the order-independent '
             'reference model.'),
    'note': ('The scheduler can only produce orders expressible as a sort key per (epoch, name): exactly what the real loop can do '
             'under some naming of lines. If the seam disappears the schedule dimension collapses and the evidence says so.'),
}
