"""C06 - termination, bounded work, no lost waiter.  DESIGN.md section 4 / C06."""
import copy

from .. import core, gen, simrun, smallenum, trackersim
from . import base

ID = 'C06'
LEVEL = 'exploration'
PLAN = {
    'quick': [('synth', 20000), ('synth_twice', 4000), ('resume', 4000), ('tracker', 160000), ('small_enum', smallenum.size(2) + 24000), ('synth_cli_eof', 3000), ('shipped', 480), ('shipped_cli', 160)],
    'thorough': [('synth', 800000), ('synth_twice', 150000), ('resume', 150000), ('tracker', 8000000), ('small_enum', smallenum.size(3)), ('synth_cli_eof', 100000), ('shipped', 20000), ('shipped_cli', 6000)],
}
DEADLINE = {'quick': 200, 'thorough': 3300}
PROBES = ['line-reattempted', 'refusal-with-waiters-outstanding', 'tracker-interleaved-drain',
          'tracker-repeated-meet', 'cycle-or-selfref', 'resume-asked-less']
ORACLES = {'P1', 'H3a', 'H4', 'H5b', 'H5n', 'H5c', 'T0', 'T1', 'T2', 'C06.lost'}
ASSUMPTIONS = [
    '"small constant" is taken as 3: evals(L) <= 3 + number of distinct inputs/lines/foreign input specs L had to wait for '
    '(doubled when the *caller* queued a line twice)',
    'step budget 6000 line attempts and 20 s CPU per run stand in for "does not terminate"',
    'this technique samples (with a strong small-size bias); it does not enumerate small programs exhaustively',
]
RULE = ('(a) generated form programs incl. cycles, self-references, unknown names, refusals and duplicate demands under '
        'seeded attempt orders; (b) interrupted-then-resumed sessions; (c) register/meet/drain histories (<=41 ops, <=4 '
        'dependencies, <=5 waiters) on the real DependencyTracker in protocol and free mode; (d) bounded-exhaustive enumeration of '
        'one-form programs with <=2 lines (always) and <=3 lines (thorough tier; a fixed stride in the quick tier) x line-name '
        'permutations x user behaviours. Non-trivial: (a) runs with >=1 '
        'cycle/self-reference/refusal/unknown name or a re-attempted line, (b) resumed sessions that answered >=1 prompt '
        'before the refusal, (c) histories with a drain interleaved with a registration or a repeated meet; distinct = '
        'distinct (world, schedule) / history digests')


_TERM = [0]


def eval_synth(case, acc=None):
    if acc is not None and _TERM[0] >= 2:
        acc.count('skipped-after-nontermination')
        return []
    try:
        if 'again' in case:
            # the same Solver is asked twice (the same request again, or one more form)
            run = simrun.execute(case, again=case['again'] or list(case['requested']), again_always=True)
        else:
            run = simrun.execute(case)
    except (core.RunTimeout, core.BudgetExceeded) as e:
        _TERM[0] += 1
        return [simrun.F(ID, 'C06.term', 'no-termination', f'solve did not finish: {type(e).__name__} {e}')]
    r1 = simrun.model_for(case, run)
    oracles = ORACLES if 'again' not in case else {'C06.lost', 'T0', 'T1', 'T2', 'H4'}    # evaluation counts are per solve() call
    fs = [f for f in simrun.judge(case, run, r1) if f['oracle'] in oracles]
    for f in fs:
        f['property'] = ID
    if acc is not None:
        base.synth_stats(case, run, r1, acc)
        if 'again' in case:
            acc.count('fault:solve-called-twice')
        interesting = run.monitor.reattempts or run.monitor.refused or \
            (run.outcome == 'failed' and run.unmet_f) or r1.verdict == 'abort'
        if run.outcome == 'failed' and run.unmet_f and not run.unmet_in:
            acc.count('probe:cycle-or-selfref')
        if interesting:
            acc.add('nontrivial', core.digest_int([case['world'], case['sched'], sorted(run.supplied)]))
        acc.count('probe:max-evals-of-a-line', 0)
        acc.sample({'engine': 'synth', 'faults': case['faults'], 'real': run.outcome, 'attempts': run.rec.attempts,
                    'max_evals_of_one_line': run.monitor.max_evals, 'prompts': len(run.monitor.prompted),
                    'registrations': run.monitor.n_reg, 'releases': run.monitor.n_rel})
    return fs


def eval_resume(case, acc=None):
    """bounded liveness once faults stop: interrupted session(s), then one fault-free session,
    must ask only not-yet-answered inputs and end in the state of an uninterrupted session."""
    fs = []
    if acc is not None and _TERM[0] >= 2:
        acc.count('skipped-after-nontermination')
        return []
    try:
        ref = simrun.execute(case, prompt=True, refuse_at=None)
        cur_names = list(case['file'])
        answered_all = {}
        asked_total = []
        rounds = case.get('rounds') or [case.get('refuse_at') if case.get('refuse_at') is not None else 1]
        for k in rounds:
            r = simrun.execute(case, names=cur_names, prompt=True, refuse_at=k)
            asked_total += r.monitor.prompted
            for n in r.monitor.answered:
                answered_all[n] = True
            # write-back: what the input store holds now is what the next session starts from
            cur_names = sorted(set(cur_names) | set(r.monitor.answered))
            if r.outcome == 'abort':
                break
        fin = simrun.execute(case, names=cur_names, prompt=True, refuse_at=None)
    except (core.RunTimeout, core.BudgetExceeded) as e:
        _TERM[0] += 1
        return [simrun.F(ID, 'C06.term', 'no-termination', f'solve did not finish: {type(e).__name__} {e}')]
    again = sorted(set(fin.monitor.prompted) & set(answered_all))
    if again:
        fs.append(simrun.F(ID, 'C06.resume', 'asked-again', f'resumed session asked again for {again}'))
    if ref.outcome != 'abort' and fin.outcome != 'abort':
        if fin.outcome != ref.outcome or fin.solution != ref.solution:
            fs.append(simrun.F(ID, 'C06.resume', 'different-end-state',
                               f'resumed session ended {fin.outcome}, uninterrupted session {ref.outcome}; '
                               f'solutions equal: {fin.solution == ref.solution}'))
        extra = sorted(set(asked_total + fin.monitor.prompted) - set(ref.monitor.prompted))
        if extra:
            fs.append(simrun.F(ID, 'C06.resume', 'asked-more', f'interrupted+resumed sessions asked for {extra}, '
                                                               f'which the uninterrupted session never needed'))
    elif (ref.outcome == 'abort') != (fin.outcome == 'abort'):
        fs.append(simrun.F(ID, 'C06.resume', 'abort-differs', f'resumed {fin.outcome} {fin.exc}, uninterrupted {ref.outcome} {ref.exc}'))
    for code, msg in fin.monitor.violations:
        if code in ORACLES:
            fs.append(simrun.F(ID, code, code, 'resumed session: ' + msg))
    if acc is not None:
        acc.steps += ref.rec.attempts + fin.rec.attempts
        acc.count(f'outcome:resume-{fin.outcome}')
        if answered_all:
            acc.count('fault:refuse')
            acc.add('nontrivial', core.digest_int(['resume', case['world'], rounds, case['sched']]))
            if len(fin.monitor.prompted) < len(ref.monitor.prompted):
                acc.count('probe:resume-asked-less')
        acc.sample({'engine': 'resume', 'rounds': rounds, 'answered_before_refusal': sorted(answered_all)[:6],
                    'asked_on_resume': fin.monitor.prompted[:6], 'end': fin.outcome})
    return fs


def eval_tracker(hist, acc=None):
    try:
        with core.cpu_alarm(10.0):
            finds, stats = trackersim.run_history(hist)
    except core.RunTimeout:
        return [simrun.F(ID, 'R2.term', 'tracker-hang', 'tracker history did not finish')]
    if acc is not None:
        acc.steps += len(hist['ops'])
        if stats['interleaved']:
            acc.count('probe:tracker-interleaved-drain')
        if stats['repeated_meet']:
            acc.count('probe:tracker-repeated-meet')
        if stats['interleaved'] or stats['repeated_meet']:
            acc.add('nontrivial', core.digest_int(hist))
        acc.add('histories', core.digest_int(hist))
        acc.count('fault:tracker-' + hist['mode'])
        if len(hist['ops']) >= 8:
            acc.sample({'engine': 'tracker', 'history': hist, 'stats': stats})
    return [simrun.F(ID, o, k, m) for o, k, m in finds]


def eval_cli_eof(case, acc=None):
    """interactive session through habutax.main() in which input ends (EOF) at question k: must terminate"""
    if acc is not None and _TERM[0] >= 2:
        acc.count('skipped-after-nontermination')
        return []
    try:
        run = simrun.execute_cli(case, {'prompt': True, 'writeback': False, 'solution': False,
                                        'interrupt': [case['eof_at'], case.get('eof_kind', 'eof')]})
    except (core.RunTimeout, core.BudgetExceeded) as e:
        _TERM[0] += 1
        return [simrun.F(ID, 'C06.term', 'no-termination', f'session with end of input at question {case["eof_at"]} did not finish: {type(e).__name__} {e}')]
    if acc is not None:
        acc.steps += run.rec.attempts + run.rec.prompts
        acc.count(f'outcome:cli-eof-{run.outcome}')
        if any(w == 'eof' for _, _, w in run.stdin_log):
            acc.count('fault:eof@k')
            acc.add('nontrivial', core.digest_int(['eof', case['world'], case['eof_at']]))
    return [simrun.F(ID, c, c, m_) for c, m_ in run.monitor.violations if c in ORACLES]


def evaluate(case, engine, acc=None):
    if engine == 'synth_cli_eof':
        return eval_cli_eof(case, acc)
    if engine == 'small_enum':
        fs = eval_synth(case, acc)
        if acc is not None:
            acc.count('fault:small-program-enumerated')
        return fs
    if engine == 'tracker':
        return eval_tracker(case, acc)
    if engine == 'resume':
        return eval_resume(case, acc)
    return eval_synth(case, acc)


def enum_case(index, tier):
    """quick: every program with <= 2 lines, plus a fixed stride through the 3-line programs; thorough: all of them"""
    s2, s3 = smallenum.size(2), smallenum.size(3)
    if tier == 'thorough' or index < s2:
        return smallenum.case_at(index, 3)
    stride = 37
    return smallenum.case_at(s2 + ((index - s2) * stride + core.base_seed()) % (s3 - s2), 3)


def make_case(engine, seed):
    if engine == 'small_enum':
        return enum_case(seed, make_case.tier)
    if engine == 'tracker':
        rng = core.Rng(seed)
        return trackersim.gen_history(rng, 'protocol' if rng.chance(0.5) else 'free')
    if engine == 'synth_cli_eof':
        rng = core.Rng(core.h64('clieof', seed))
        case = gen.gen_case(seed, clean=rng.chance(0.6))
        case['prompt'] = True
        case['refuse_at'] = None
        case['file'] = [n for n in case['file'] if rng.chance(0.3) or case['persona'][n]['invalid'] or '\n' in case['persona'][n]['text']]
        case['eof_at'] = rng.pick([0, 0, 1, 2, 3, 5])
        case['eof_kind'] = rng.pick(['eof', 'eof', 'eof_retry'])
        return case
    if engine == 'resume':
        rng = core.Rng(core.h64('resume', seed))
        case = gen.gen_case(seed, force_faults=rng.pick([['refuse'], ['refuse', 'missing'], ['refuse', 'notimpl'],
                                                         ['refuse', 'cycle'], ['refuse', 'dup']]))
        case['prompt'] = True
        case['file'] = [n for n in case['file'] if rng.chance(0.5) or case['persona'][n]['invalid']]
        case['rounds'] = [rng.pick([0, 1, 1, 2, 3]) for _ in range(rng.pick([1, 1, 2, 3]))]
        return case
    if engine == 'synth_twice':
        rng = core.Rng(core.h64('c06twice', seed))
        case = gen.gen_case(seed, clean=rng.chance(0.6))
        others = [f for f in case['world']['forms'] if f['name'] not in [r.split(':')[0] for r in case['requested']]]
        case['again'] = []
        if others and rng.chance(0.5):
            o = rng.pick(others)
            case['again'] = [f"{o['name']}:{rng.pick(['0', '1', '2'])}" if o['multi'] else o['name']]
        return case
    return gen.gen_case(seed)


make_case.tier = 'quick'


def run_one(engine, seed, acc, tier):
    if _TERM[0] >= 2 and engine != 'tracker':
        # this worker has already reported two solves that do not finish: the check has failed, and every further one
        # would cost its full CPU allowance
        acc.count('skipped-after-nontermination')
        return
    n0 = sum(1 for v in acc.violations if v.get('oracle') == 'C06.term')
    try:
        if engine in ('shipped', 'shipped_cli'):
            from . import shipped_props
            return shipped_props.run_one(ID, seed, acc, tier, level='cli' if engine == 'shipped_cli' else None)
        make_case.tier = tier
        case = make_case(engine, seed)
        for f in evaluate(case, engine, acc):
            acc.violation(base.violation(ID, f, case, seed, engine))
    finally:
        if engine != 'synth' and engine != 'small_enum' and engine != 'synth_twice':      # those count in eval_synth themselves
            _TERM[0] += sum(1 for v in acc.violations if v.get('oracle') == 'C06.term') - n0


def replay(rec):
    if rec.get('engine') in ('shipped', 'shipped_cli'):
        from . import shipped_props
        return shipped_props.replay(ID, rec)
    return evaluate(rec['case'], rec.get('engine'))


_min_synth = base.make_minimiser(lambda c, e: evaluate(c, e))


def minimise(v):
    if str(v.get('engine', '')).startswith('shipped'):
        return v
    if v.get('engine') == 'tracker':
        oracle = v['oracle']
        small = trackersim.shrink_history(v['case'], lambda h: any(f['oracle'] == oracle for f in eval_tracker(h)))
        fs = [f for f in eval_tracker(small) if f['oracle'] == oracle]
        if fs:
            v = dict(v, case=small, msg=fs[0]['msg'], minimised=True)
        return v
    return _min_synth(v)


def coverage(accs, total):
    return {
        'distinct_nontrivial': len(total.sets.get('nontrivial', ())),
        'rule': RULE,
        'samples': total.samples,
        'real_vs_stub': base.REAL_VS_STUB,
        'distinct_attempt_traces': len(total.sets.get('traces', ())),
        'distinct_tracker_histories': len(total.sets.get('histories', ())),
        'small_programs_enumerated': total.counters.get('fault:small-program-enumerated', 0),
        'small_program_space': {'<=2 lines (always exhaustive)': smallenum.size(2), '<=3 lines (exhaustive in the thorough tier)': smallenum.size(3)},
    }


MANIFEST = {
    'level': 'exploration',
    'technique': 'deterministic simulation: seeded schedules, refusals/resumes, tracker histories vs. bookkeeping model (R2)',
    'text': ('Seeded search over (a) generated form programs with cycles, self-references, unknown names, refusals and '
             'duplicate demands under permuted attempt orders, with event-level invariants (each input asked at most once, '
             'evals(L) <= 3 + distinct waits, every registration released exactly once after its dependency was met, '
             'nothing computable left without a value) and a step/CPU budget as termination oracle; (b) interrupted and '
             'resumed sessions (bounded liveness once faults stop); (c) register/meet/drain histories on the real '
             'DependencyTracker checked against a 25-line model. Sampling with small-size bias, not exhaustive.'),
    'note': ('Trusts R1/R2; "small constant" fixed at 3; termination is judged by a budget of 6000 attempts / 20 s CPU; '
             'the register/release events come from a recording subclass bound at habutax.solver.DependencyTracker.'),
}
