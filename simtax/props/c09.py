"""C09 - declaring an unsupported tax situation never yields a solved return.  DESIGN.md 4 / C09."""
import json
import os

from .. import core, shipped, simrun
from . import base, shipped_props

ID = 'C09'
LEVEL = 'fault_enumeration'
PLAN = {
    'quick': [('gates', 400), ('limits', 240), ('synth_gates', 8000)],
    'thorough': [('gates', 16000), ('limits', 9000), ('synth_gates', 300000)],
}
DEADLINE = {'quick': 220, 'thorough': 3300}
PROBES = ['gate-read-and-affirmative', 'gate-led-to-abort', 'gate-led-to-failure', 'limit-foreign-tax', 'limit-schedule-b-rows',
          'limit-educator-expenses', 'limit-hsa-contribution', 'baseline-solved']
ASSUMPTIONS = [
    'the gate catalogue (catalogues/gates_<year>.json) is a reviewed, pinned reading of the unchanged tree: inputs that sit in a '
    'condition guarding not_implemented() (AST), with polarity and the forms whose lines consult them as gates; it is never re-derived '
    'at check time, so deleting or inverting a gate in /repo cannot also delete it from the oracle',
    'implementing a situation later legitimately changes the specification and requires removing its catalogue entry',
    'a gate counts as consulted only when a line of one of its catalogued reader forms reads it (e.g. 1040.standard_deduction_exceptions '
    'gates Form 1040 line 12 but is a supported input of the NC forms)',
]
RULE = ('fault = the simulated taxpayer declares a situation habutax cannot handle. For a baseline session (17 archetypes x seeded '
        'perturbation x 3 years) EVERY catalogued gate input the baseline actually read is, one at a time, answered affirmatively in a '
        're-run under a fresh attempt order and file/prompt split (enumeration over the gates read per scenario); limit faults push '
        'foreign tax above the Form 1116 threshold, payers above the 14 Schedule B rows, educator expenses above the cap, HSA '
        'contributions above any limit. If the gate/limit was consulted in the faulted run, the run must not report success (failure or '
        'abort are both fine). A third engine runs generated form programs (several forms, copies of forms, lines asked for by name) '
        'whose lines signal an unimplemented situation behind conditions on inputs: whenever the reference model reaches such a '
        'signal on the final inputs, success must not be reported. Non-trivial: faulted runs of a baseline that solved, in which the gate was read; distinct = distinct '
        '(year, gate or limit) pairs among those')
F = simrun.F
_cat = {}


def gate_catalogue(year):
    if year not in _cat:
        with open(os.path.join(core.VERIF, 'catalogues', f'gates_{year}.json')) as f:
            _cat[year] = json.load(f)
    return _cat[year]


def gate_key(q):
    form, inst, b = shipped.split_name(q)
    return f'{form}.{b}'


def affirmative(entry):
    return ['b', True] if entry['polarity'] else ['b', False]


TRUE_TEXT = ('yes', 'y', 'true', '1', 'on')
FALSE_TEXT = ('no', 'n', 'false', '0', 'off')


def gates_consulted(year, run):
    """catalogued gates that a line of a catalogued reader form consulted while the answer the user SUPPLIED (the text
    in the store at the end, read independently of habutax) is the unsupported one -> {q: reader line}"""
    cat = gate_catalogue(year)['gates']
    out = {}
    texts = getattr(run, 'input_texts', None) or {}
    for e in run.rec.events:
        if (e[0] == 'RI' or e[0] == 'RL') and e[3][0] == 'ok':
            k = gate_key(e[2])
            ent = cat.get(k)
            if ent is None or e[1] is None:
                continue
            if bool(ent.get('via_line')) != (e[0] == 'RL'):
                continue        # a gate on a statement is consulted through the statement's line of the same name
            reader_form = e[1].split('.')[0].split(':')[0]
            if reader_form not in ent['readers']:
                continue
            t = texts.get(e[2])
            if t is not None:
                said = t.strip().lower()
                unsupported = said in (TRUE_TEXT if ent['polarity'] else FALSE_TEXT)
                if said not in TRUE_TEXT + FALSE_TEXT:
                    try:        # an amount that gates as "any / none"
                        unsupported = (float(said) != 0) == bool(ent['polarity'])
                    except ValueError:
                        pass
            else:
                unsupported = e[3][1] == affirmative(ent)
            if unsupported:
                out.setdefault(e[2], e[1])
    return out


def gates_read(year, run):
    cat = gate_catalogue(year)['gates']
    out = {}
    for e in run.rec.events:
        if (e[0] == 'RI' or e[0] == 'RL') and e[3][0] == 'ok' and e[1] is not None:
            ent = cat.get(gate_key(e[2]))
            if ent is not None and bool(ent.get('via_line')) == (e[0] == 'RL') and e[1].split('.')[0].split(':')[0] in ent['readers']:
                out.setdefault(e[2], e[1])
    return out


def resolve_history(pdict, basel, q, text, sched, rng):
    """the same Solver is asked twice: first with the gate declared and one unrelated needed input missing (fails),
    then again after that input was supplied.  Returns a run-like object whose outcome is that of the SECOND solve()."""
    from .. import seams, monitor as mon
    from habutax import inputs as hb_inputs, forms as hb_forms, solver as hb_solver
    per = shipped.Persona(pdict)
    per.over = dict(per.over, **{q: text})
    read = [e[2] for e in basel.rec.events if e[0] == 'RI' and e[3][0] == 'ok' and e[2] != q]
    if not read:
        return None
    x = read[rng.randrange(len(read))]
    names = [n for n in basel.supplied if n != x]
    from .. import gen
    path = os.path.join(simrun.scratch_dir(), 'c09_resolve.ini')
    with open(path, 'w', newline='') as f:
        f.write(gen.file_text([(n, per.text(n)) for n in names]))
    store = hb_inputs.InputStore(path)
    m = mon.Monitor(supplied=names)
    rec = seams.Recorder(budget=40000, sched_seed=sched[0], period=sched[1], monitor=m)
    run = shipped.ShippedRun()
    run.rec, run.monitor = rec, m
    with seams.installed(rec), core.cpu_alarm(30.0):
        s = hb_solver.Solver(store, hb_forms.available_forms[pdict['year']], prompt=None)
        try:
            s.solve(list(pdict['forms']))
            store[x] = per.text(x)
            ok = s.solve(list(pdict['forms']))
            run.outcome = 'solved' if ok else 'failed'
        except Exception as e:
            run.outcome = 'abort'
            run.exc = (type(e).__name__, str(e)[:200])
    run.input_texts = {f'{sec}.{k}': v for (sec, k), v in simrun.config_items(store.config).items()}
    return run


def eval_gates(case, acc=None):
    year = case['persona']['year']
    cat = gate_catalogue(year)['gates']
    fs = []
    try:
        basel = shipped_props.execute(case)
    except (core.RunTimeout, core.BudgetExceeded):
        if acc is not None:
            acc.count('outcome:baseline-unfinished')
        return fs
    read = gates_read(year, basel)
    todo = case.get('gates')
    if todo is None:
        todo = sorted(read)
    if acc is not None:
        acc.steps += basel.rec.attempts + basel.rec.prompts
        acc.count(f'outcome:baseline-{basel.outcome}')
        if basel.outcome == 'solved':
            acc.count('probe:baseline-solved')
    # (every gate's choices depend on the scenario and the gate only, so that a replay of one gate makes the same ones)
    base_digest = core.digest({k: v for k, v in case.items() if k != 'gates'})
    for q in todo:
        ent = cat.get(gate_key(q))
        if ent is None:
            continue
        rng = core.Rng(core.h64('c09v', base_digest, q))
        # any spelling the input itself accepts for that answer
        spec = shipped.Persona(case['persona']).spec(q) or {}
        if spec.get('type') == 'bool':
            text = rng.pick(['yes', 'yes', 'y', 'true', '1', 'on', 'YES', 'True', ' yes'] if ent['polarity']
                            else ['no', 'no', 'n', 'false', '0', 'off', 'No', 'FALSE'])
        elif spec.get('type') in ('float', 'int') and ent['polarity']:
            text = rng.pick(['1', '250', '1200'])       # an amount where only "none" is supported
        else:
            text = 'yes' if ent['polarity'] else 'no'
        sched = (rng.randrange(1 << 32), rng.pick([0, 1, 3]))
        names = [n for n in basel.supplied if rng.chance(0.5)] if rng.chance(0.7) else list(case['file'])
        how = rng.pick(['fresh', 'fresh', 'reuse', 'resolve', 'cli'])
        # the statement or form copy the gate sits on may be named in the request as well (with its sibling copies)
        req = list(case['persona']['forms'])
        finst = q.split('.')[0]
        if ':' in finst and rng.chance(0.7 if finst.split(':')[1].isdigit() else 0.4):
            base_, inst_ = finst.split(':')
            sibs = [finst]
            if inst_.isdigit():
                try:
                    n_ = int(float(shipped.Persona(case['persona']).text(f'1040.number_{base_}')))
                    sibs = [f'{base_}:{k_}' for k_ in range(min(n_, 4))]
                except (ValueError, core.HarnessError):
                    pass
            req += [f_ for f_ in sibs if f_ not in req]
            if rng.chance(0.6):
                names = list(basel.supplied)        # a complete file: nothing is asked
            if acc is not None:
                acc.count('fault:gate-form-copy-named-in-request')
        try:
            if how == 'cli':
                # the same declaration through `habutax solve` (habutax.main(), real prompt loop, --form per requested form)
                import copy
                c2 = copy.deepcopy(case)
                c2['persona']['over'][q] = text
                c2['persona']['forms'] = list(req)
                c2.update(file=list(names), sched=list(sched), prompt=True, refuse_at=None)
                run = shipped_props.execute_cli(c2)
            elif how == 'fresh':
                run = shipped.execute(case['persona'], file_names=names, sched=sched, prompt=True, layout=case.get('layout'),
                                      overrides={q: text}, requested=req)
            elif how == 'reuse':
                # the declaration arrives on the SAME InputStore after a first solve (store reused through its mapping API)
                first = shipped.execute(case['persona'], file_names=list(basel.supplied), sched=sched, prompt=True)
                try:
                    first.store[q] = text
                except Exception:
                    continue
                run = shipped.execute(case['persona'], sched=sched, prompt=True, store=first.store, overrides={q: text})
            else:
                run = resolve_history(case['persona'], basel, q, text, sched, rng)
                if run is None:
                    continue
        except (core.RunTimeout, core.BudgetExceeded):
            # a session that does not finish does not report success either (termination is C06's business)
            if acc is not None:
                acc.count('outcome:gate-run-unfinished')
            continue
        if acc is not None:
            acc.count('fault:gate-declared-' + how)
        consulted = gates_consulted(year, run)
        if q in consulted and run.outcome == 'solved':
            fs.append(F(ID, 'C09.gate', f'{year}:{gate_key(q)}',
                        f'{year}: {q} answered {text!r} (unsupported situation), read by {consulted[q]}, and the solve reported success'))
        if acc is not None:
            acc.steps += run.rec.attempts + run.rec.prompts
            acc.count('gate_runs')
            if q in consulted:
                acc.count('probe:gate-read-and-affirmative')
                acc.count('fault:unsupported-situation-declared')
                if run.outcome == 'abort':
                    acc.count('probe:gate-led-to-abort')
                elif run.outcome == 'failed':
                    acc.count('probe:gate-led-to-failure')
                if basel.outcome == 'solved':
                    acc.add('nontrivial', core.digest_int([year, gate_key(q)]))
                acc.add('gates_exercised', core.digest_int([year, gate_key(q)]))
        if fs and acc is None:
            break
    if acc is not None:
        acc.sample({'engine': 'gates', 'year': year, 'archetype': case['persona']['archetype'], 'baseline': basel.outcome,
                    'gates_read_in_baseline': [gate_key(q) for q in sorted(read)][:12], 'n_gates': len(read)})
    return fs


LIMIT_SETUPS = ['foreign_tax', 'schedule_b_rows', 'educator_expenses', 'hsa_contribution']


def make_limit_case(seed):
    rng = core.Rng(core.h64('c09l', seed))
    year = rng.pick(shipped.YEARS)
    kind = rng.pick(LIMIT_SETUPS)
    lim = gate_catalogue(year)['limits']
    arch = {'foreign_tax': 'foreign_tax', 'schedule_b_rows': 'joint_interest_dividends', 'educator_expenses': 's1_adjustments',
            'hsa_contribution': rng.pick(['hsa', 'joint_hsa_spouse'])}[kind]
    p = shipped.make_persona(year, seed, arch)
    over = p['over']
    status = over['1040.filing_status']
    if kind == 'foreign_tax':
        thr = lim['foreign_tax_1116']['threshold'].get(status, lim['foreign_tax_1116']['threshold']['other'])
        style = rng.pick(['int', 'div', 'both', 'just_below', 'between'])
        if style == 'between':
            # above the single-filer threshold, below the joint one
            over['1099-int:0.box_6'] = str(rng.pick([300.01, 450, 600]))
            style = None
        if style is None:
            pass
        elif style == 'just_below':
            over['1099-int:0.box_6'] = str(thr)
        elif style == 'int':
            over['1099-int:0.box_6'] = str(thr + rng.pick([0.01, 1, 250, 900]))
        elif style == 'div':
            over['1099-int:0.box_6'] = '0'
            over['1040.number_1099-div'] = '1'
            over['1099-div:0.payer'] = 'Intl Fund'
            over['1099-div:0.box_1a'] = '900'
            over['1099-div:0.box_7'] = str(thr + rng.pick([0.01, 5]))
        else:
            over['1099-int:0.box_6'] = str(thr / 2 + 1)
            over['1040.number_1099-div'] = '1'
            over['1099-div:0.payer'] = 'Intl Fund'
            over['1099-div:0.box_1a'] = '900'
            over['1099-div:0.box_7'] = str(thr / 2 + 1)
    elif kind == 'schedule_b_rows':
        n = rng.pick([14, 15, 16])
        which = rng.pick(['int', 'div'])
        over[f'1040.number_1099-{which}'] = str(n)
        small = rng.chance(0.5)
        for k in range(n):
            over[f'1099-{which}:{k}.payer'] = f'Payer {k}'
            amt = rng.pick([200, 400])
            if small:
                # the listed rows alone stay below the Schedule B threshold, the total does not
                amt = 100 if k < 14 else 250
            over[f'1099-{which}:{k}.box_1' if which == 'int' else f'1099-div:{k}.box_1a'] = str(amt)
    elif kind == 'educator_expenses':
        over['1040_s1.educator_expenses'] = str(rng.pick([500, 500.01, 501, 2000, 1200]))
    else:
        who = 'you'
        h = lim['hsa_contribution']
        fam = rng.chance(0.4)
        over[f'8889:{who}.hdhp_plan_family'] = 'yes' if fam else 'no'
        emp = rng.pick([0, 0, 1000, 2000.5])
        over[f'8889:{who}.employer_contribution'] = str(emp)
        room = max(0.0, h['limit']['family' if fam else 'self'] - emp)
        over[f'8889:{who}.hsa_contributions'] = str(round(room + rng.pick([-100, 0, 0.01, 1, 500, 20000]), 2))
    if rng.chance(0.2):
        # the same amounts as printed on statements: 1,200 or 3,900.00 (not a number for habutax today: rejected)
        for q in list(over):
            if q.endswith(('.box_6', '.box_7', '.hsa_contributions', '.educator_expenses')):
                try:
                    v = float(over[q])
                except ValueError:
                    continue
                if v >= 1000:
                    over[q] = f'{v:,.2f}' if v != int(v) else f'{int(v):,}'
    case = {'persona': p, 'file': [], 'prompt': True, 'refuse_at': None, 'layout': None,
            'sched': [rng.randrange(1 << 32), rng.pick([0, 1, 3])], 'faults': [kind], 'limit': kind}
    if rng.chance(0.5):
        # an earlier return with another filing status solved in the same process (limits depend on the status)
        import copy
        pre = copy.deepcopy(p)
        pre['over']['1040.filing_status'] = 'Single' if status == 'MarriedFilingJointly' else 'MarriedFilingJointly'
        for q in list(pre['over']):
            if q.endswith(('.box_6', '.box_7')):
                pre['over'][q] = '10'          # well below every threshold: the earlier return is an ordinary one
        case['prelude'] = pre
    return case


def limit_exceeded(case, run):
    """-> (name, detail) if a catalogued limit was exceeded AND the line that enforces it was evaluated"""
    year = case['persona']['year']
    lim = gate_catalogue(year)['limits']
    texts = run.input_texts
    attempted = {e[1] for e in run.rec.events if e[0] == 'A'}

    def num(q):
        t = (texts.get(q, '0') or '0').strip()
        import re
        if re.fullmatch(r'\d{1,3}(,\d{3})+(\.\d+)?', t):
            t = t.replace(',', '')          # an amount written with thousands separators is still that amount
        try:
            return float(t)
        except ValueError:
            return 0.0
    out = []
    # foreign tax: the limit counts as consulted when the line that enforces it was evaluated, and also when any line looked
    # at the foreign tax amounts at all (a return that looks at them and then never reaches the enforcing line has skipped it)
    looked = any(e[0] == 'RI' and e[3][0] == 'ok' and e[2].endswith(('.box_6', '.box_7')) and e[2].startswith('1099-')
                 for e in run.rec.events)
    if lim['foreign_tax_1116']['reader_line'] in attempted or looked:
        status = texts.get('1040.filing_status', '').strip()
        thr = lim['foreign_tax_1116']['threshold'].get(status, lim['foreign_tax_1116']['threshold']['other'])
        ni = int(num('1040.number_1099-int'))
        nd = int(num('1040.number_1099-div'))
        tot = sum(num(f'1099-int:{n}.box_6') for n in range(ni)) + sum(num(f'1099-div:{n}.box_7') for n in range(nd))
        if tot > thr:
            out.append(('limit-foreign-tax', f'foreign tax {tot} > Form 1116 threshold {thr} ({status})'))
    if lim['schedule_b_rows']['reader_line'] in attempted:
        mx = lim['schedule_b_rows']['max_payers']
        if num('1040.number_1099-int') > mx or num('1040.number_1099-div') > mx:
            out.append(('limit-schedule-b-rows', f'more than {mx} payers'))
    if lim['educator_expenses']['reader_line'] in attempted and num(lim['educator_expenses']['input']) > lim['educator_expenses']['cap']:
        out.append(('limit-educator-expenses', f'educator expenses {num(lim["educator_expenses"]["input"])} > {lim["educator_expenses"]["cap"]}'))
    h = lim['hsa_contribution']
    for a in sorted(attempted):
        if a.endswith(h['reader_line_suffix']) and a.startswith('8889'):
            inst = a.split('.')[0]
            own = num(inst + h['input_suffix'])
            emp = num(inst + h['employer_suffix'])
            fam = texts.get(inst + h['family_suffix'], 'no').strip().lower() in ('yes', 'y', 'true', '1', 'on')
            room = max(0.0, h['limit']['family' if fam else 'self'] - emp)
            if own > room:
                out.append(('limit-hsa-contribution', f'{inst}: own contributions {own} > limit {h["limit"]["family" if fam else "self"]} - employer {emp}'))
    return out


def eval_limits(case, acc=None):
    if case.get('prelude'):
        try:
            shipped.execute(case['prelude'], prompt=True)
        except (core.RunTimeout, core.BudgetExceeded):
            pass
        if acc is not None:
            acc.count('fault:earlier-return-in-same-process')
    run = shipped_props.execute(case)
    fs = []
    ex = limit_exceeded(case, run)
    year = case['persona']['year']
    for name, detail in ex:
        if run.outcome == 'solved':
            fs.append(F(ID, 'C09.limit', f'{year}:{name}', f'{year}: {detail}, the limit was consulted (its amounts were read), and the solve reported success'))
    # the gate oracle applies to every run as well
    consulted = gates_consulted(year, run)
    if consulted and run.outcome == 'solved':
        q = sorted(consulted)[0]
        fs.append(F(ID, 'C09.gate', f'{year}:{gate_key(q)}', f'{year}: {q} answered affirmatively, read by {consulted[q]}, and the solve reported success'))
    if acc is not None:
        acc.steps += run.rec.attempts + run.rec.prompts
        acc.count(f'outcome:limit-{run.outcome}')
        for name, _ in ex:
            acc.count('probe:' + name)
            acc.count('fault:' + name)
            acc.add('nontrivial', core.digest_int([year, name]))
        acc.sample({'engine': 'limits', 'year': year, 'limit': case['limit'], 'exceeded': ex, 'outcome': run.outcome, 'exc': run.exc})
    return fs


def eval_synth_gates(case, acc=None):
    """generated form programs (several forms, copies of forms, lines asked for by name) in which lines signal an unimplemented
    situation behind conditions on inputs: whenever the reference model, on the final inputs, reaches such a signal, the real
    solve must not report success - whichever form or copy the line sits on and whether or not anything waits for it"""
    from .. import gen  # noqa
    run = simrun.execute_cli(case, {'prompt': case['prompt'], 'writeback': False, 'solution': False}) if case.get('via_cli') \
        else simrun.execute(case)
    r1 = simrun.model_for(case, run)
    fs = []
    if r1.verdict != 'abort' and r1.unimpl and run.outcome == 'solved':
        fs.append(F(ID, 'C09.gate', 'generated-program',
                    f'generated program: lines {sorted(r1.unimpl)[:4]} signal an unimplemented situation on these inputs, and the '
                    f'solve reported success'))
    if acc is not None:
        acc.steps += run.rec.attempts + run.rec.prompts
        acc.count(f'outcome:synth-{run.outcome}')
        if r1.unimpl and r1.verdict != 'abort':
            acc.count('fault:unsupported-situation-declared')
            copies = sorted({q.split('.')[0] for q in r1.unimpl if ':' in q.split('.')[0]})
            if copies:
                acc.count('probe:unimplemented-line-on-a-form-copy')
    return fs


def evaluate(case, engine, acc=None):
    if engine == 'synth_gates':
        return eval_synth_gates(case, acc)
    if engine == 'limits':
        return eval_limits(case, acc)
    return eval_gates(case, acc)


def run_one(engine, seed, acc, tier):
    if engine == 'synth_gates':
        from .. import gen
        rng = core.Rng(core.h64('c09s', seed))
        case = gen.gen_case(seed, force_faults=rng.pick([['notimpl'], ['notimpl'], ['notimpl', 'dup'], ['notimpl', 'none']]))
        case['prompt'] = True
        case['refuse_at'] = None
        case['via_cli'] = (not case['field_names']) and rng.chance(0.3)
        for f in evaluate(case, engine, acc):
            acc.violation(base.violation(ID, f, case, seed, engine))
        return
    if engine == 'limits':
        case = make_limit_case(seed)
    else:
        r_ = core.Rng(core.h64('c09arch', seed))
        # returns with several copies of a statement are where gates sit on "the other copy": a larger share of them
        arch = r_.pick(['retiree_1099r', 'retiree_1099r', 'ira_8606', 'joint_hsa_spouse', 'single_w2']) if r_.chance(0.25) else None
        case = shipped_props.make_case(seed, 'C09', flip_p=0.0, archetype=arch)
        case['prompt'] = True
        case['refuse_at'] = None
    for f in evaluate(case, engine, acc):
        c = dict(case)
        if engine == 'gates':
            q = f['msg'].split(': ', 1)[1].split(' answered')[0]
            c['gates'] = [q]
        acc.violation(base.violation(ID, f, c, seed, engine))


def replay(rec):
    return evaluate(rec['case'], rec.get('engine'))


def coverage(accs, total):
    n_pinned = sum(len(gate_catalogue(y)['gates']) for y in shipped.YEARS)
    return {'distinct_nontrivial': len(total.sets.get('nontrivial', ())), 'rule': RULE, 'samples': total.samples,
            'evaluations': total.runs + total.counters.get('gate_runs', 0),
            'scenarios': total.runs, 'faulted_runs': total.counters.get('gate_runs', 0),
            'gates_pinned_all_years': n_pinned, 'distinct_gates_exercised': len(total.sets.get('gates_exercised', ())),
            'exhaustive': False,
            'exhaustive_note': 'enumerates every catalogued gate read by each sampled baseline scenario; scenarios are sampled',
            'real_vs_stub': base.REAL_VS_STUB}


MANIFEST = {
    'level': 'fault_enumeration',
    'technique': 'deterministic simulation: "unsupported situation declared" as injected fault, enumerated over the gates each simulated session reads',
    'text': ('The predicate refers to the run\'s history ("whenever the solver consults the input"), so it is monitored on simulated '
             'sessions: for each sampled baseline taxpayer every pinned gate input that the session actually read is flipped to the '
             'unsupported answer, one at a time, and the session is re-run under a fresh attempt order and file/prompt split; limit '
             'faults exceed the implemented thresholds. Success of a run in which the gate was consulted is a violation.'),
    'note': ('Trusts the pinned gate catalogue (AST-derived from the unchanged tree, reviewed for polarity and compound conditions); '
             'gates that no archetype reaches are listed but never exercised - see distinct_gates_exercised in the evidence.'),
}
