"""C11 - lines only ever see validated, correctly typed, finite input values.  DESIGN.md 4 / C11."""
import configparser
import locale
import math
import os

from .. import core, crash, gen, shipped, simrun, synth, seams, monitor as mon
from . import base

hb = core.import_habutax()
from habutax import form as hb_form          # noqa: E402
from habutax import inputs as hb_inputs      # noqa: E402
from habutax import fields as hb_fields      # noqa: E402
from habutax import solver as hb_solver      # noqa: E402

ID = 'C11'
LEVEL = 'exploration'
PLAN = {
    'quick': [('echo_file', 9000), ('echo_prompt', 5000), ('flip', 6000), ('store_history', 5000), ('synth_session', 5000), ('shipped', 160)],
    'thorough': [('echo_file', 400000), ('echo_prompt', 200000), ('flip', 250000), ('store_history', 200000), ('synth_session', 150000), ('shipped', 8000)],
}
DEADLINE = {'quick': 220, 'thorough': 3300}
PROBES = ['store-history-delete-then-solve', 'store-history-respecified-type', 'invalid-text-with-interactive-user', 'invalid-text-in-file-rejected', 'invalid-answer-reasked', 'boundary-text-accepted', 'nonfinite-text-offered',
          'absent-key-reported-missing', 'flipped-character-still-valid', 'flipped-character-invalid']
ASSUMPTIONS = [
    'validity is judged by the input\'s own valid() (a legitimately changed grammar is not an alarm); finiteness of numeric values '
    'is judged independently with math.isfinite',
    'the text an input receives from a file is the text a fresh configparser reads for that key',
]
RULE = ('fault model: the text arriving over either input channel is wrong - a damaged stored value (adversarial text or one flipped '
        'character in a valid file) or a mistyped answer (n invalid texts before a valid one). System under test: real InputStore on '
        'real files, the real prompt_input retry loop with scripted input(), real Solver, an echo line that records what it received; '
        'input specs are the synthetic ones of every type and every input spec of every shipped form. Rejected text => never a value '
        '(file: abort naming it; prompt: asked again, input() called #invalid+1 times, first valid text stored); accepted text => '
        'value() succeeds, exactly the declared type, finite. Non-trivial: distinct (input type, text class, channel) triples with an '
        'invalid or boundary text')
F = simrun.F
UTF8 = locale.getpreferredencoding(False).lower().replace('-', '') == 'utf8'

# text classes ---------------------------------------------------------------------
NUMERIC = [('plain', ['0', '7', '12.5', '1500', '-3', '+4']), ('ws', [' 7 ', '\t12.5', '7  ']),
           ('exp', ['1e3', '1E-2', '2.5e0', '1e309', '-1e999', '1e-400']), ('nonfinite', ['nan', 'NaN', 'inf', '-inf', 'Infinity', '+infinity', 'nan(1)']),
           ('underscore', ['1_000', '1__0', '_1', '1_']), ('hex', ['0x10', '0b1', '0o7', '1.5e']), ('empty', ['', ' ']),
           ('junk', ['abc', '1,5', '--1', '1.2.3', '$5', '5%', '1 2']), ('dot', ['.5', '5.', '.', '-.5e1']),
           # amounts as printed on statements, and what a lenient "strip the $ and the commas" would let through
           ('currency', ['$5', '1,200', '$1,200.50', '$nan', '$inf', 'i,nf', 'n,an', '$1e999', '1,0e400', '-$inf', '$'])]
UNICODE_NUM = [('unicode', ['١٢٣', '１２', '1 ', '²'])]
BOOL = [('canon', ['yes', 'no', 'y', 'n', 'true', 'false', '1', '0', 'on', 'off']), ('case', ['YES', 'No', 'TRUE', 'oN', 'Off']),
        ('ws', [' yes ', 'no\t']), ('near', ['ye', 'nope', 'tru', '2', '-1', 'yes no', 'yess', 'o']), ('empty', ['', ' '])]
STR = [('plain', ['abc', 'John Q. Public']), ('ws', [' x ', '\tx']), ('empty', ['', '  ']), ('special', ['(a', 'b)', 'c\\d', '"q"', "it's", '#x', ';x', '[sec]', 'a=b', 'a:b']),
       ('long', ['x' * 300])]
SSN = [('canon', ['123-45-6789', '123456789']), ('ws', [' 123-45-6789 ']), ('short', ['12345678', '123-45-678']), ('long', ['1234567890', '123-45-67890']),
       ('dashes', ['1-2-3-4-5-6-7-8-9', '---------', '123--456789', '-123456789']), ('junk', ['12345678x', 'abcdefghi', '123 45 6789', '']),
       ]
UNICODE_SSN = [('unicode', ['١٢٣٤٥٦٧٨٩', '12345678٩'])]


def enum_texts(members):
    m = members[0]
    out = [('canon', list(members[:4])), ('ws', [f' {m} ', f'{m}\t']), ('case', [m.upper(), m.lower(), m.swapcase()]),
           ('near', [m + 'x', m[:-1] if len(m) > 1 else 'zz', m + ' ' + m, 'zeta', '0', 'None']), ('empty', ['', ' '])]
    return out


def regex_texts(rx):
    base_ok = None
    import re
    for cand in ('011000015', '12345678', 'AB-123', 'ab1', 'cc9', 'NC', '27601', 'abc'):
        if re.match(rx, cand):
            base_ok = cand
            break
    out = [('junk', ['', 'zz', '???', ' ']), ('special', ['ab1 ', ' ab1', 'ab12', 'AB1', 'xab1'])]
    if base_ok:
        out.append(('canon', [base_ok]))
        out.append(('near', [base_ok + '0', base_ok[:-1], 'x' + base_ok, base_ok + ' x', base_ok.swapcase(), base_ok + '-']))
    return out


def texts_for(tname, spec_extra):
    base = _texts_for(tname, spec_extra)
    # a valid text followed by something that looks like an inline comment (configparser has none by default:
    # the whole thing is the value, and for most types it is invalid)
    canon = [t for t in base[0][1] if t.strip()][:3]
    return base + [('comment-suffix', [f'{t} ;or was it 7?' for t in canon] + [f'{t} # note' for t in canon] + [f'{t}  ; x' for t in canon[:1]])]


def _texts_for(tname, spec_extra):
    if tname in ('int', 'float'):
        return NUMERIC + (UNICODE_NUM if UTF8 else [])
    if tname == 'bool':
        return BOOL
    if tname == 'str':
        return STR
    if tname == 'ssn':
        return SSN + (UNICODE_SSN if UTF8 else [])
    if tname in ('enum', 'enum_empty'):
        return enum_texts(spec_extra['members'])
    if tname == 'regex':
        return regex_texts(spec_extra['regex'])
    return STR


# specs ------------------------------------------------------------------------------
_shipped_specs = None


def shipped_specs():
    """distinct (type, members/regex) input specs of all shipped forms, each with one representative (year, form, base)"""
    global _shipped_specs
    if _shipped_specs is None:
        seen = {}
        for y in shipped.YEARS:
            for fname, f in sorted(shipped.catalogue(y).items()):
                for bname, spec in sorted(f['inputs'].items()):
                    key = (spec['type'], tuple(spec.get('members', ())), spec.get('regex'))
                    seen.setdefault(key, {'src': 'shipped', 'year': y, 'form': fname, 'input': bname, 'type': spec['type'],
                                          'members': spec.get('members'), 'regex': spec.get('regex')})
        _shipped_specs = [seen[k] for k in sorted(seen, key=repr)]
    return _shipped_specs


SYNTH_SPECS = [{'src': 'synth', 'type': t} for t in ('str', 'bool', 'int', 'float', 'regex', 'ssn')] + \
              [{'src': 'synth', 'type': 'enum', 'enum': 'E1'}, {'src': 'synth', 'type': 'enum_empty', 'enum': 'E2'}]


def make_input(spec):
    """a fresh real Input object for the spec, named 'x'"""
    if spec['src'] == 'synth':
        enums = synth.build_enums({'enums': gen.ENUMS})
        s = {'name': 'x', 'type': spec['type']}
        if 'enum' in spec:
            s['enum'] = spec['enum']
        return synth._make_input(s, enums), enums
    cat = shipped.catalogue(spec['year'])
    f = cat[spec['form']]
    obj = f['cls'](instance=(f['instances'][0] if f['instances'] else None))
    import copy
    for i in obj.inputs():
        if i.base_name() == spec['input']:
            # never rename an object the form classes might share: work on a shallow clone
            clone = object.__new__(type(i))
            clone.__dict__.update(i.__dict__)
            clone._name = 'x'
            return clone, None
    raise core.HarnessError(f'input {spec} not found')


def spec_extra(spec):
    if spec['src'] == 'synth':
        d = {}
        if 'enum' in spec:
            d['members'] = gen.ENUMS[spec['enum']]
        if spec['type'] == 'regex':
            d['regex'] = synth.REGEX
        return d
    return {'members': spec.get('members'), 'regex': spec.get('regex')}


LINE_FOR = {'str': 'str', 'ssn': 'str', 'regex': 'str', 'bool': 'bool', 'int': 'int', 'float': 'float', 'enum': 'enum', 'enum_empty': 'enum'}


def echo_classes(spec):
    """one real Form subclass: input x of the spec'd type, required line '1' that hands back what it received"""
    holder = {}

    class Echo(hb_form.Form):
        form_name = 'fa'
        tax_year = synth.SYNTH_YEAR
        description = 'Echo'
        long_description = 'echo form'
        jurisdiction = hb_form.Jurisdiction.US
        sequence_no = 0

        def __init__(self, **kwargs):
            inp, _ = make_input(spec)
            holder['input'] = inp

            def fn(s, i, v):
                val = i['x']
                holder.setdefault('seen', []).append(val)
                return val
            t = LINE_FOR[spec['type']]
            if t == 'str':
                fld = hb_fields.StringField('1', fn)
            elif t == 'bool':
                fld = hb_fields.BooleanField('1', fn)
            elif t == 'int':
                fld = hb_fields.IntegerField('1', fn)
            elif t == 'float':
                fld = hb_fields.FloatField('1', fn, places=6)
            else:
                fld = hb_fields.EnumField('1', inp.enum, fn)
            hb_form.Form.__init__(self, type(self), [inp], [fld], [], **kwargs)

        def needs_filing(self, values):
            return True
    return [Echo], holder


def check_value(spec, inp, text, val):
    """accepted text => exactly declared type, finite, equals the input's own value(text)"""
    t = spec['type']
    bad = None
    if t in ('str', 'ssn', 'regex'):
        if type(val) is not str:
            bad = f'expected str, line received {type(val).__name__}'
        elif t == 'ssn' and not (len(val) == 9 and val.isascii() and val.isdigit()):
            # what a social security number is does not depend on the implementation: nine decimal digits
            bad = f'a social security number must be nine (ASCII) digits, line received {val!r}'
    elif t == 'bool':
        if type(val) is not bool:
            bad = f'expected bool, line received {type(val).__name__}'
    elif t == 'int':
        if type(val) is not int:
            bad = f'expected int, line received {type(val).__name__} {val!r}'
    elif t == 'float':
        if type(val) is not float:
            bad = f'expected float, line received {type(val).__name__} {val!r}'
        elif not math.isfinite(val):
            bad = f'line received the non-finite number {val!r}'
    elif t in ('enum', 'enum_empty'):
        if val is None:
            if t == 'enum' or text.strip() != '':
                bad = f'line received None for text {text!r}'
        elif not isinstance(val, inp.enum):
            bad = f'expected a member of {inp.enum}, line received {val!r}'
    return bad


def text_class_key(spec, cls, channel):
    return core.digest_int([spec['type'], spec.get('regex'), cls, channel])


def eval_echo(case, engine, acc=None):
    """case: {'spec', 'texts': [[class, text], ...], 'channel': 'file'|'prompt', 'sched'}"""
    spec = case['spec']
    classes, holder = echo_classes(spec)
    fs = []
    texts = case['texts']
    path = os.path.join(simrun.scratch_dir(), 'c11_in.ini')
    probe, _ = make_input(spec)
    probe.__form_init__(type('F', (), {'name': lambda self: 'fa'})())

    ov = {}

    def own_valid(t):
        # the input's own verdict, asked for in import-time state (see prelude below) and remembered
        if t not in ov:
            try:
                ov[t] = bool(probe.valid(t))
            except Exception:
                ov[t] = None
        return ov[t]

    def prelude():
        """verdicts first, in import-time state; then whatever habutax may remember is wiped, and - if the case has one -
        another input of the same kind (another pattern, other choices) is given the very same texts in a solve of its own,
        in this process, before the run that is judged"""
        core.reset_code_state()
        for _, t_ in texts:
            if t_ is not None:
                own_valid(t_)
                own_valid(t_.strip())
        if isinstance(case.get('user'), str) and case['user'] != 'refuse':
            own_valid(case['user'])
        core.reset_code_state()
        pre = case.get('prelude_spec')
        if pre is None:
            return
        pclasses, _ = echo_classes(pre)
        ppath = os.path.join(simrun.scratch_dir(), 'c11_pre.ini')
        for _, t_ in texts:
            if t_ is None:
                continue
            crash.write_text(ppath, f'[fa]\nx = {t_}\n')
            prec = seams.Recorder(budget=200)
            try:
                with seams.installed(prec), core.cpu_alarm(10):
                    hb_solver.Solver(hb_inputs.InputStore(ppath), pclasses, prompt=None).solve(['fa'])
            except (core.RunTimeout, core.BudgetExceeded):
                raise
            except Exception:
                pass
        if acc is not None:
            acc.count('fault:same-text-given-to-another-input-before')
    if case['channel'] == 'file':
        cls, text = texts[0]
        if text is None:
            crash.write_text(path, '[fa]\nother = 1\n')
            eff = None
        else:
            crash.write_text(path, f'[fa]\nx = {text}\n')
            try:
                eff = crash.parse_ini(open(path, newline='').read()).get(('fa', 'x'))
                cfgp = configparser.ConfigParser()
                cfgp.read(path)
                eff = cfgp.get('fa', 'x', raw=True) if cfgp.has_option('fa', 'x') else None
            except configparser.Error:
                return []          # the generated text does not survive the INI syntax: not a case
        if eff is not None:
            core.reset_code_state()
            own_valid(eff)
        prelude()
        m = mon.Monitor(supplied=['fa.x'] if eff is not None else [])
        rec = seams.Recorder(budget=200, sched_seed=case['sched'][0], period=case['sched'][1], monitor=m)
        outcome, exc, unmet = None, None, None
        user = case.get('user')           # None: no prompt function; 'refuse': Ctrl-C; else: the text the user would type
        pf = None
        if user is not None:
            pf = seams.solver_prompt(rec, lambda name, inp, k: None if user == 'refuse' else user)
        if case.get('via') == 'cli' and user is None:
            # the same file through `habutax solve` (the CLI builds its own store)
            kind_, exc_, out_ = simrun.run_cli(['solve', path, '--year', str(synth.SYNTH_YEAR), '--form', 'fa'], rec=rec,
                                               year_forms={synth.SYNTH_YEAR: classes})
            if kind_ == 'return':
                outcome = 'solved' if '\nSuccessfully solved!' in out_ else 'failed'
                unmet = {}
                try:
                    unmet = rec.solvers[-1].unmet_input_dependencies()
                except Exception:
                    pass
            else:
                outcome, exc = 'abort', exc_
        else:
          with seams.installed(rec), core.cpu_alarm(10):
            try:
                store = hb_inputs.InputStore(path)
                s = hb_solver.Solver(store, classes, prompt=pf)
                ok = s.solve(['fa'])
                outcome = 'solved' if ok else 'failed'
                unmet = s.unmet_input_dependencies()
            except Exception as e:
                outcome, exc = 'abort', e
        seen = holder.get('seen', [])
        v = own_valid(eff) if eff is not None else None
        if eff is not None and m.prompted:
            fs.append(F(ID, 'C11.absent', 'supplied-asked-for', f'{spec["type"]}: the file supplies {eff!r} but the user was asked for it'))
        if user is not None and eff is not None and v is False and acc is not None:
            acc.count('probe:invalid-text-with-interactive-user')
        if eff is None and user not in (None, 'refuse'):
            # absent key, interactive user who answers: the answer is what the line must receive
            if own_valid(user) and (not seen or core.norm(seen[-1]) != core.norm(probe.value(user))):
                fs.append(F(ID, 'C11.accept', 'answer-not-delivered', f'{spec["type"]}: absent key, user answered {user!r}, line received {seen!r}'))
        elif eff is None:
            if seen:
                fs.append(F(ID, 'C11.absent', 'absent-defaulted', f'{spec["type"]}: key absent from the file but the line received {seen[0]!r}'))
            elif outcome != 'failed' or 'fa.x' not in (unmet or {}):
                fs.append(F(ID, 'C11.absent', 'absent-not-reported', f'{spec["type"]}: key absent, outcome {outcome} {exc!r}, unmet inputs {unmet}'))
            elif acc is not None:
                acc.count('probe:absent-key-reported-missing')
        elif v is False:
            if seen:
                fs.append(F(ID, 'C11.reject', 'invalid-became-value', f'{spec["type"]}: text {eff!r} is rejected by the input\'s own valid() but the line received {seen[0]!r}'))
            elif outcome != 'abort':
                fs.append(F(ID, 'C11.reject', 'invalid-not-reported', f'{spec["type"]}: invalid text {eff!r} in the file, outcome {outcome} (unmet {unmet})'))
            elif isinstance(exc, hb_inputs.MissingInput) or (outcome == 'failed'):
                fs.append(F(ID, 'C11.reject', 'supplied-reported-missing', f'{spec["type"]}: supplied text {eff!r} reported as missing'))
            else:
                if acc is not None:
                    acc.count('probe:invalid-text-in-file-rejected')
                if 'fa.x' not in str(exc) and not isinstance(exc, configparser.Error):
                    fs.append(F(ID, 'C11.reject', 'invalid-unnamed', f'{spec["type"]}: invalid text {eff!r} aborts with {type(exc).__name__}: {exc} - the input is not named'))
        elif v is True:
            if not seen:
                if outcome == 'abort' and isinstance(exc, configparser.Error):
                    pass            # e.g. '%' : interpolation syntax - a loud abort, never a value
                elif outcome == 'failed' and 'fa.x' in (unmet or {}):
                    fs.append(F(ID, 'C11.absent', 'supplied-reported-missing', f'{spec["type"]}: supplied text {eff!r} reported as missing'))
                else:
                    fs.append(F(ID, 'C11.accept', 'valid-not-delivered', f'{spec["type"]}: text {eff!r} passes valid() but no value reached the line: {outcome} {exc!r}'))
            else:
                bad = check_value(spec, holder['input'], eff, seen[0])
                if bad:
                    key = 'nonfinite' if 'non-finite' in bad else 'bad-type'
                    fs.append(F(ID, 'C11.accept', f'{key}:{spec["type"]}', f'{spec["type"]}: text {eff!r} accepted, {bad}'))
                else:
                    try:
                        want = probe.value(eff)
                        if core.norm(want) != core.norm(seen[0]):
                            fs.append(F(ID, 'C11.accept', 'value-differs', f'{spec["type"]}: text {eff!r}: line received {seen[0]!r}, own value() gives {want!r}'))
                    except Exception as e:
                        fs.append(F(ID, 'C11.accept', 'value-raises', f'{spec["type"]}: valid() accepts {eff!r} but value() raises {type(e).__name__}'))
                if acc is not None and cls not in ('plain', 'canon'):
                    acc.count('probe:boundary-text-accepted')
        for code, msg in m.violations:
            if code == 'H6':
                fs.append(F(ID, 'H6', 'H6', msg))
        if acc is not None:
            acc.steps += rec.attempts
            acc.count(f'outcome:file-{outcome}')
            if cls == 'nonfinite' or (text or '').strip().lower().lstrip('+-') in ('1e309', '1e999'):
                acc.count('probe:nonfinite-text-offered')
            if cls not in ('plain', 'canon'):
                acc.add('nontrivial', text_class_key(spec, cls, 'file'))
            acc.count('fault:corrupt-value' if v is False else 'fault:adversarial-text')
            acc.sample({'engine': engine, 'spec': {k: spec[k] for k in ('src', 'type')}, 'text': text, 'class': cls,
                        'own_valid': v, 'outcome': outcome, 'line_received': repr(seen[0]) if seen else None})
        return fs
    # ---- prompt channel: the real retry loop -------------------------------------
    crash.write_text(path, '')
    seq = [t for _, t in texts]
    pos = {'i': 0}
    m = mon.Monitor(supplied=[])
    rec = seams.Recorder(budget=200, sched_seed=case['sched'][0], period=case['sched'][1], monitor=m)

    def stdin(prompt_text=''):
        i = pos['i']
        pos['i'] += 1
        if i >= len(seq):
            raise KeyboardInterrupt()
        return seq[i]
    prelude()
    first_valid = next((k for k, t in enumerate(seq) if own_valid(t) is True), None)
    kind, exc, out = simrun.run_cli(['solve', path, '--year', str(synth.SYNTH_YEAR), '--form', 'fa', '--prompt-missing',
                                     '--writeback-input'], stdin=stdin, rec=rec, year_forms={synth.SYNTH_YEAR: classes})
    seen = holder.get('seen', [])
    calls = pos['i']
    if first_valid is None:
        # everything typed was invalid, then Ctrl-C: never a value
        if seen:
            fs.append(F(ID, 'C11.reject', 'invalid-answer-became-value', f'{spec["type"]}: all of {seq!r} are invalid but the line received {seen[0]!r}'))
        elif calls != len(seq) + 1:
            fs.append(F(ID, 'C11.retry', 'retry-count', f'{spec["type"]}: {len(seq)} invalid answers, input() called {calls} times (expected {len(seq) + 1})'))
        elif acc is not None:
            acc.count('probe:invalid-answer-reasked')
    else:
        if calls != first_valid + 1:
            fs.append(F(ID, 'C11.retry', 'retry-count', f'{spec["type"]}: answers {seq!r}, first valid is #{first_valid}, input() called {calls} times'))
        elif first_valid > 0 and acc is not None:
            acc.count('probe:invalid-answer-reasked')
        if kind != 'return' and not (isinstance(exc, ValueError) and '%' in seq[first_valid]):
            fs.append(F(ID, 'C11.accept', 'valid-answer-aborts', f'{spec["type"]}: valid answer {seq[first_valid]!r} -> {kind} {exc!r}'))
        elif kind == 'return':
            if not seen:
                fs.append(F(ID, 'C11.accept', 'valid-not-delivered', f'{spec["type"]}: valid answer {seq[first_valid]!r} but no value reached the line'))
            else:
                bad = check_value(spec, holder['input'], seq[first_valid], seen[-1])
                if bad:
                    key = 'nonfinite' if 'non-finite' in bad else 'bad-type'
                    fs.append(F(ID, 'C11.accept', f'{key}:{spec["type"]}', f'{spec["type"]}: answer {seq[first_valid]!r} accepted, {bad}'))
                else:
                    want = probe.value(seq[first_valid])
                    if core.norm(want) != core.norm(seen[-1]):
                        fs.append(F(ID, 'C11.accept', 'value-differs', f'{spec["type"]}: answer {seq[first_valid]!r}: line received {seen[-1]!r}, own value() gives {want!r}'))
            try:
                stored = crash.parse_ini(open(path, newline='').read()).get(('fa', 'x'))
                if stored != seq[first_valid].strip():
                    fs.append(F(ID, 'C11.retry', 'stored-text', f'{spec["type"]}: stored text {stored!r}, first valid answer {seq[first_valid]!r}'))
            except configparser.Error as e:
                fs.append(F(ID, 'C11.retry', 'stored-text', f'file malformed after write-back: {e}'))
    if acc is not None:
        acc.steps += rec.attempts + calls
        acc.count(f'outcome:prompt-{kind}')
        acc.count('fault:garble', first_valid if first_valid is not None else len(seq))
        for cls, t in texts:
            if cls not in ('plain', 'canon'):
                acc.add('nontrivial', text_class_key(spec, cls, 'prompt'))
            if cls == 'nonfinite':
                acc.count('probe:nonfinite-text-offered')
        acc.sample({'engine': engine, 'spec': {k: spec[k] for k in ('src', 'type')}, 'answers': seq, 'first_valid': first_valid,
                    'input_calls': calls, 'line_received': repr(seen[-1]) if seen else None})
    return fs


def eval_flip(case, acc=None):
    """synthetic case, everything in the file; one character of one stored value flipped"""
    c = case
    run = simrun.execute(c)
    fs = []
    q = c['flipped']
    new_text = c['persona'][q]['text']
    spec = simrun.input_spec_of(c['world'], q)
    enums = synth.build_enums(c['world'])
    inp = synth._make_input(dict(spec), enums)
    inp.__form_init__(type('F', (), {'name': lambda self: q.split('.')[0]})())
    # the text the input receives is what configparser reads for that key (continuation lines lose their indentation)
    sec_, key_ = q.rsplit('.', 1)
    eff = (run.config_items or {}).get((sec_, key_), new_text.strip())
    try:
        v = bool(inp.valid(eff))
    except Exception:
        v = None
    for e in run.rec.events:
        if e[0] == 'RI' and e[2] == q:
            if e[3][0] == 'ok':
                if v is False:
                    fs.append(F(ID, 'C11.reject', 'invalid-became-value', f'{q} ({spec["type"]}): text {eff!r} rejected by valid() but {e[1]} received {e[3][1]}'))
                elif v:
                    want = core.norm(inp.value(eff))
                    if want != e[3][1]:
                        fs.append(F(ID, 'C11.accept', 'value-differs', f'{q}: text {eff!r}: line received {e[3][1]}, own value() gives {want}'))
                    elif want[0] == 'f' and not math.isfinite(float(want[1])):
                        fs.append(F(ID, 'C11.accept', f'nonfinite:{spec["type"]}', f'{q}: text {eff!r} accepted, line received a non-finite number'))
            elif e[3][0] == 'missing':
                fs.append(F(ID, 'C11.absent', 'supplied-reported-missing', f'{q}: supplied text {eff!r} reported as missing'))
            elif e[3][0] == 'invalid' and v:
                fs.append(F(ID, 'C11.accept', 'valid-rejected', f'{q}: text {eff!r} passes valid() but was reported invalid'))
    for code, msg in run.monitor.violations:
        if code == 'H6':
            fs.append(F(ID, 'H6', 'H6', msg))
    if acc is not None:
        acc.steps += run.rec.attempts
        acc.count(f'outcome:flip-{run.outcome}')
        acc.count('fault:corrupt-value')
        if v:
            acc.count('probe:flipped-character-still-valid')
        elif v is False:
            acc.count('probe:flipped-character-invalid')
        acc.add('nontrivial', core.digest_int(['flip', spec['type'], 'valid' if v else 'invalid', eff[:3]]))
        acc.sample({'engine': 'flip', 'input': q, 'type': spec['type'], 'text_after_flip': new_text, 'own_valid': v, 'outcome': run.outcome, 'exc': run.exc})
    return fs


def eval_shipped(case, acc=None):
    """shipped session: every value any line received must be what the input's own value() makes of the supplied text"""
    from . import shipped_props
    run = shipped_props.execute(case)
    per = shipped.Persona(case['persona'])
    fs = []
    n = 0
    for e in run.rec.events:
        if e[0] == 'RI' and e[3][0] == 'ok':
            q = e[2]
            text = run.input_texts.get(q)
            obj = per.input_obj(q)
            if text is None or obj is None:
                fs.append(F(ID, 'H6', 'H6', f'{e[1]} received a value for {q}, which was never supplied'))
                continue
            n += 1
            if not obj.valid(text):
                fs.append(F(ID, 'C11.reject', 'invalid-became-value', f'{q}: text {text!r} rejected by valid() but {e[1]} received {e[3][1]}'))
                continue
            want = core.norm(obj.value(text))
            if want[0] == 'e':
                want = ['e', want[1], want[2]]
            if want != e[3][1] and not (want[0] == 'e' and e[3][1][0] == 'e' and want[2] == e[3][1][2]):
                fs.append(F(ID, 'C11.accept', 'value-differs', f'{q}: text {text!r}: line received {e[3][1]}, own value() gives {want}'))
            elif want[0] == 'f' and not math.isfinite(float(want[1])):
                fs.append(F(ID, 'C11.accept', 'nonfinite:float', f'{q}: line received a non-finite number for {text!r}'))
    for code, msg in run.monitor.violations:
        if code == 'H6':
            fs.append(F(ID, 'H6', 'H6', msg))
    if acc is not None:
        acc.steps += run.rec.attempts + run.rec.prompts
        acc.count(f'outcome:shipped-{run.outcome}')
        acc.count('input_values_checked', n)
        if run.exc and run.exc[0] == 'InvalidInput':
            acc.count('probe:invalid-text-in-file-rejected')
            acc.count('fault:corrupt-value')
        acc.sample({'engine': 'shipped', 'year': case['persona']['year'], 'input_values_checked': n, 'outcome': run.outcome, 'exc': run.exc})
    return fs


def eval_session(case, acc=None):
    """whole sessions on generated programs, judged only for what C11 says about supplied / not supplied:
    (a) a user who answers some questions and then refuses - nothing that was answered (or was in the file) may be reported
        as missing;
    (b) an interactive session with write-back, then a plain solve on the written file - no line of the second run may
        receive a value for an input that was neither in the original file nor answered (a blank that write-back made up
        is not a supplied value)."""
    fs = []
    if case['kind'] == 'refuse':
        try:
            run = simrun.execute(case)
        except (core.RunTimeout, core.BudgetExceeded):
            raise
        if run.outcome in ('solved', 'failed'):
            given = set(run.supplied)
            wrong = sorted(n for n in (run.unmet_in or {}) if n in given and not case['persona'].get(n, {}).get('default_text'))
            if wrong:
                fs.append(F(ID, 'C11.absent', 'supplied-reported-missing',
                            f'inputs {wrong[:4]} were supplied (file or answered before the refusal) but are reported as needed and not supplied'))
        for code, msg in run.monitor.violations:
            if code == 'H6':
                fs.append(F(ID, 'H6', 'H6', msg))
        if run.outcome == 'abort' and run.exc and run.exc[0] == 'TypeError' and 'found <enum' in run.exc[1] \
                and 'expected to produce type <enum' in run.exc[1]:
            # a line that hands back what it received for an enumeration input of its own form was given a member of another
            # enumeration class: the value did not have the input's declared type
            r1 = simrun.model_for(case, run)
            if r1.verdict != 'abort':
                fs.append(F(ID, 'C11.accept', 'foreign-enumeration-member',
                            f'a line received an enumeration member that is not of its input\'s declared enumeration: {run.exc[1][:200]}'))
        if acc is not None:
            acc.steps += run.rec.attempts + run.rec.prompts
            acc.count(f'outcome:session-{run.outcome}')
            if run.monitor.refused and run.monitor.answered:
                acc.count('fault:refusal-after-answers')
                acc.add('nontrivial', core.digest_int(['refuse', case['world'], sorted(run.monitor.answered)]))
        return fs
    from . import c20
    world = c20.synth_world(case)
    path = os.path.join(simrun.scratch_dir(), 'c11_wb.ini')
    crash.write_text(path, c20.initial_text(case, 'synth'))
    h = case['hist']
    run1 = crash.session(world, path, {'prompt': h['prompt'], 'writeback': True, 'solution': False,
                                       'interrupt': [h['refuse_at'], 'ctrlc'] if h.get('refuse_at') is not None else None})
    truth = set(crash.names_of(run1.before_items)) | set(run1.answers)
    run2 = crash.session(world, path, {'prompt': False, 'writeback': False, 'solution': False})
    made_up = sorted({e[2] for e in run2.rec.events if e[0] == 'RI' and e[3][0] == 'ok' and e[2] not in truth})
    if made_up:
        fs.append(F(ID, 'C11.absent', 'never-supplied-has-value',
                    f'after write-back and a second solve, lines received values for {made_up[:4]}, which were neither in the '
                    f'original file nor answered'))
    if acc is not None:
        acc.steps += run1.rec.attempts + run1.rec.prompts + run2.rec.attempts
        acc.count(f'outcome:writeback-{run1.outcome}-then-{run2.outcome}')
        acc.count('fault:write-back-then-solve-again')
        if run1.answers:
            acc.add('nontrivial', core.digest_int(['wb', case['world'], sorted(run1.answers)]))
    return fs


def evaluate(case, engine, acc=None):
    if engine == 'synth_session':
        return eval_session(case, acc)
    if engine == 'store_history':
        return eval_store_history(case, acc)
    if engine == 'flip':
        return eval_flip(case, acc)
    if engine == 'shipped':
        return eval_shipped(case, acc)
    return eval_echo(case, engine, acc)


def make_case(engine, seed):
    rng = core.Rng(core.h64('c11', seed))
    if engine == 'synth_session':
        k_ = rng.random()
        if k_ < 0.3:
            # nothing goes wrong on the user's side: every input is given (file or answer)
            case = gen.gen_case(seed, clean=True)
            case['prompt'] = True
            case['refuse_at'] = None
            case['kind'] = 'refuse'
            return case
        if k_ < 0.65:
            case = gen.gen_case(seed, force_faults=rng.pick([['refuse'], ['refuse'], ['refuse', 'notimpl'], ['refuse', 'dup']]))
            case['prompt'] = True
            case['refuse_at'] = rng.pick([1, 1, 2, 3, 5])
            case['file'] = [n for n in case['file'] if rng.chance(0.4) or case['persona'][n]['invalid'] or '\n' in case['persona'][n]['text']]
            case['kind'] = 'refuse'
        else:
            case = gen.gen_case(seed, force_faults=rng.pick([[], ['missing'], ['missing', 'notimpl'], ['refuse']]))
            case['hist'] = {'prompt': rng.chance(0.6), 'refuse_at': rng.pick([None, 0, 0, 1, 2])}
            case['file'] = [n for n in case['file'] if rng.chance(0.5) or case['persona'][n]['invalid'] or '\n' in case['persona'][n]['text']]
            case['kind'] = 'writeback'
        return case
    if engine == 'store_history':
        return make_store_history(seed)
    if engine == 'shipped':
        from . import shipped_props
        case = shipped_props.make_case(seed, 'C11')
        if case['file'] and rng.chance(0.4):
            per = shipped.Persona(case['persona'])
            q = rng.pick(case['file'])
            bad = per.invalid_texts(q)
            if bad:
                case['persona']['over'][q] = rng.pick(bad)
        return case
    if engine == 'flip':
        case = gen.gen_case(seed, clean=True)
        case['file'] = sorted(case['persona'])
        case['prompt'] = False
        names = [n for n in case['file'] if case['persona'][n]['text'].strip()]
        if not names:
            names = case['file']
        if not names:
            case['flipped'] = None
            return case
        q = rng.pick(names)
        t = case['persona'][q]['text']
        if t == '':
            t2 = rng.pick(['x', '-', '1'])
        else:
            i = rng.randrange(len(t))
            how = rng.random()
            ch = rng.pick('0123456789abcxyzNIFnif.-+e_ ')
            if how < 0.5:
                t2 = t[:i] + ch + t[i + 1:]
            elif how < 0.75:
                t2 = t[:i] + t[i + 1:]
            else:
                t2 = t[:i] + ch + t[i:]
        case['persona'][q] = {'text': t2, 'typed': ['n'], 'invalid': False}
        case['flipped'] = q
        return case
    specs = SYNTH_SPECS + shipped_specs()
    spec = rng.pick(specs) if rng.chance(0.6) else rng.pick(SYNTH_SPECS)
    classes = texts_for(spec['type'], spec_extra(spec))
    prelude_spec = None
    if rng.chance(0.35):
        same = [sp for sp in specs if sp is not spec and sp['type'] in
                (('regex', 'ssn', 'str') if spec['type'] in ('regex', 'ssn', 'str') else (spec['type'], spec['type'].replace('_empty', ''), spec['type'] + '_empty'))]
        if same:
            prelude_spec = rng.pick(same)
    if engine == 'echo_file':
        if rng.chance(0.05):
            texts = [['absent', None]]
        else:
            cls, ts = rng.pick(classes)
            texts = [[cls, rng.pick(ts)]]
        user = None
        if rng.chance(0.4):
            user = 'refuse' if rng.chance(0.5) else rng.pick(classes[0][1])
        return {'spec': spec, 'texts': texts, 'channel': 'file', 'sched': [None, 0], 'user': user,
                'via': 'cli' if (user is None and rng.chance(0.4)) else 'api', 'prelude_spec': prelude_spec}
    n = rng.pick([1, 2, 2, 3, 4])
    texts = []
    for _ in range(n):
        cls, ts = rng.pick(classes)
        texts.append([cls, rng.pick(ts)])
    if rng.chance(0.7):
        cls, ts = classes[0]
        texts.append([cls, rng.pick(ts)])
    return {'spec': spec, 'texts': texts, 'channel': 'prompt', 'sched': [None, 0], 'prelude_spec': prelude_spec}


def run_one(engine, seed, acc, tier):
    case = make_case(engine, seed)
    if engine == 'flip' and case.get('flipped') is None:
        return
    for f in evaluate(case, engine, acc):
        acc.violation(base.violation(ID, f, case, seed, engine))


def replay(rec):
    return evaluate(rec['case'], rec.get('engine'))


def coverage(accs, total):
    return {'distinct_nontrivial': len(total.sets.get('nontrivial', ())), 'rule': RULE, 'samples': total.samples,
            'real_vs_stub': base.REAL_VS_STUB, 'shipped_input_specs_covered': len(shipped_specs()),
            'shipped_input_values_checked': total.counters.get('input_values_checked', 0), 'utf8_texts_used': UTF8}


MANIFEST = {
    'level': 'exploration',
    'technique': 'deterministic simulation: corrupted stored values and mistyped answers as injected faults on both input channels',
    'text': ('Fault injection on the two channels input text arrives over: damaged values in real input files (adversarial texts, '
             'single-character flips of valid files) and mistyped answers at the real prompt retry loop (scripted input()). An echo line '
             'inside the real solver records what a calculation actually receives; verdicts are relative to the input\'s own valid() '
             'plus an independent finiteness test, for the synthetic input types and every distinct input spec of the shipped forms.'),
    'note': 'Texts are single-line and must survive INI syntax; non-ASCII texts are used only when the locale encoding is UTF-8.',
}


# ----------------------------------------------------------------------------------
# histories on ONE InputStore shared by several solves (values set, deleted, re-read under another spec)
# ----------------------------------------------------------------------------------
def eval_store_history(case, acc=None):
    """case: {'initial': text|None, 'ops': [['solve', spec, user] | ['del'] | ['set', text]]}"""
    fs = []
    path = os.path.join(simrun.scratch_dir(), 'c11_hist.ini')
    crash.write_text(path, '[fa]\nother = 1\n' if case['initial'] is None else f'[fa]\nother = 1\nx = {case["initial"]}\n')
    try:
        cfgp = configparser.ConfigParser()
        cfgp.read(path)
        cur = cfgp.get('fa', 'x', raw=True) if cfgp.has_option('fa', 'x') else None
    except configparser.Error:
        return []
    store = hb_inputs.InputStore(path)
    solved_once = False
    n_del = n_respec = 0
    last_type = None
    for k, op in enumerate(case['ops']):
        if op[0] == 'del':
            if cur is not None:
                try:
                    del store['fa.x']
                except Exception as e:
                    fs.append(F(ID, 'C11.hist', 'delete-raises', f'op {k}: deleting a supplied input raised {type(e).__name__}'))
                    break
                cur = None
                n_del += 1
            continue
        if op[0] == 'set':
            if solved_once:
                try:
                    store['fa.x'] = op[1]
                    cur = op[1]
                except Exception:
                    break
            continue
        spec, user = op[1], op[2]
        if last_type is not None and last_type != spec['type']:
            n_respec += 1
        last_type = spec['type']
        classes, holder = echo_classes(spec)
        probe, _ = make_input(spec)
        probe.__form_init__(type('F', (), {'name': lambda self: 'fa'})())
        m = mon.Monitor(supplied=['fa.x'] if cur is not None else [])
        rec = seams.Recorder(budget=200, monitor=m)
        pf = None
        if user is not None:
            pf = seams.solver_prompt(rec, lambda name, inp, kk, user=user: None if user == 'refuse' else user)
        outcome, exc, unmet = None, None, None
        with seams.installed(rec), core.cpu_alarm(10):
            try:
                s = hb_solver.Solver(store, classes, prompt=pf)
                ok = s.solve(['fa'])
                outcome = 'solved' if ok else 'failed'
                unmet = s.unmet_input_dependencies()
            except Exception as e:
                outcome, exc = 'abort', e
        solved_once = True
        seen = holder.get('seen', [])
        tag = f'op {k} (solve as {spec["type"]}, stored text {cur!r}, user {user!r})'
        try:
            v = None if cur is None else bool(probe.valid(cur))
        except Exception:
            v = None
        if cur is None:
            if user not in (None, 'refuse') and probe.valid(user):
                if not seen or core.norm(seen[-1]) != core.norm(probe.value(user)):
                    fs.append(F(ID, 'C11.hist', 'answer-not-delivered', f'{tag}: line received {seen!r}'))
                cur = user
            elif seen:
                fs.append(F(ID, 'C11.hist', 'absent-yielded-value', f'{tag}: the input is not supplied but the line received {seen[-1]!r}'))
            elif outcome != 'failed' or 'fa.x' not in (unmet or {}):
                if not (user not in (None, 'refuse')):
                    fs.append(F(ID, 'C11.hist', 'absent-not-reported', f'{tag}: outcome {outcome} {exc!r}, unmet {unmet}'))
        elif v is False:
            if seen:
                fs.append(F(ID, 'C11.hist', 'invalid-became-value', f'{tag}: text is rejected by the input\'s own valid() but the line received {seen[-1]!r}'))
            elif outcome != 'abort':
                fs.append(F(ID, 'C11.hist', 'invalid-not-reported', f'{tag}: outcome {outcome}, unmet {unmet}'))
            if m.prompted:
                fs.append(F(ID, 'C11.hist', 'supplied-asked-for', f'{tag}: the user was asked for a supplied input'))
                if user not in (None, 'refuse'):
                    cur = user
        elif v is True:
            if m.prompted:
                fs.append(F(ID, 'C11.hist', 'supplied-asked-for', f'{tag}: the user was asked for a supplied input'))
            if not seen:
                if not (outcome == 'abort' and isinstance(exc, configparser.Error)):
                    fs.append(F(ID, 'C11.hist', 'valid-not-delivered', f'{tag}: outcome {outcome} {exc!r}'))
            else:
                bad = check_value(spec, holder['input'], cur, seen[-1])
                if bad:
                    fs.append(F(ID, 'C11.hist', 'bad-type', f'{tag}: {bad}'))
                elif core.norm(probe.value(cur)) != core.norm(seen[-1]):
                    fs.append(F(ID, 'C11.hist', 'value-differs', f'{tag}: line received {seen[-1]!r}, own value() gives {probe.value(cur)!r}'))
        if acc is not None:
            acc.steps += rec.attempts
        if fs:
            break
    if acc is not None:
        acc.count('outcome:store-history')
        if n_del:
            acc.count('probe:store-history-delete-then-solve')
        if n_respec:
            acc.count('probe:store-history-respecified-type')
        acc.add('nontrivial', core.digest_int(['hist', [o[0] if o[0] != 'solve' else o[1]['type'] for o in case['ops']]]))
        acc.sample({'engine': 'store_history', 'initial': case['initial'],
                    'ops': [o if o[0] != 'solve' else ['solve', o[1]['type'], o[2]] for o in case['ops']]})
    return fs


def make_store_history(seed):
    rng = core.Rng(core.h64('c11h', seed))

    def some_text(spec):
        cls, ts = rng.pick(texts_for(spec['type'], spec_extra(spec)))
        return rng.pick(ts)
    specs = [rng.pick(SYNTH_SPECS) for _ in range(rng.pick([1, 2, 2, 3]))]
    ops = []
    init = None if rng.chance(0.3) else some_text(specs[0])
    for _ in range(rng.pick([2, 3, 4, 6])):
        c = rng.random()
        if c < 0.55 or not ops:
            sp = rng.pick(specs)
            user = rng.pick([None, None, 'refuse', some_text(sp)])
            ops.append(['solve', sp, user])
        elif c < 0.8:
            ops.append(['del'])
        else:
            ops.append(['set', some_text(rng.pick(specs))])
    if ops[-1][0] != 'solve':
        ops.append(['solve', rng.pick(specs), None])
    return {'initial': init, 'ops': ops}
