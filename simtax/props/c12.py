"""C12 - stored values have the declared type, rounding and blank convention.  DESIGN.md 4 / C12."""
from .. import core, gen, simrun
from . import base

ID = 'C12'
LEVEL = 'exploration'
PLAN = {
    'quick': [('synth', 26000), ('shipped', 800)],
    'thorough': [('synth', 1000000), ('shipped', 36000)],
}
DEADLINE = {'quick': 200, 'thorough': 3300}
PROBES = ['wrong-type-rejected', 'none-or-blank-stored-as-empty', 'nontrivially-rounded-float-read-by-another-line']
ORACLES = {'C12.type', 'C12.reject', 'C12.stored', 'H1'}
ASSUMPTIONS = ['"exactly the declared type" is judged with type(v) is T (bool is not int, subclasses are not the type)']
RULE = ('generated lines of every type (float with 0-3 places, int, bool, str, enum; input-mirroring lines of input-only forms) '
        'returning correct values, None, blank text, and wrong Python types (bool for int, int for float, subclasses, bytes, another '
        'enum\'s member, a member name), under seeded attempt orders; plus every value stored by simulated returns on shipped forms. '
        'Every value an evaluation hands back is checked for exact type / rounding / blank convention, every read for seeing exactly '
        'that value, every wrong-typed result for being rejected with an error naming the line. Non-trivial: distinct (line type, '
        'places, kind of returned value) combinations exercised + distinct shipped lines seen with a non-trivially rounded float')


def _tail_kinds(case):
    """(line type, places, tail kind) combos present in the world"""
    out = set()
    for f in case['world']['forms']:
        if f['kind'] != 'form':
            for i in f['inputs']:
                out.add(('mirror', i['type'], 'input'))
            continue
        for l in f['required'] + f['optional']:
            stack = [l['expr']]
            kinds = set()
            while stack:
                e = stack.pop()
                if isinstance(e, list) and e and isinstance(e[0], str):
                    if e[0] in ('none', 'blank', 'wrong'):
                        kinds.add(e[0] + (':' + e[1] if e[0] == 'wrong' else ''))
                    stack.extend(x for x in e[1:] if isinstance(x, list))
            for k in kinds or {'typed'}:
                out.add((l['type'], l.get('places', 2) if l['type'] == 'float' else None, k))
    return out


def evaluate(case, engine, acc=None):
    run = simrun.execute(case)
    r1 = simrun.model_for(case, run)
    fs = [f for f in simrun.judge(case, run, r1) if f['oracle'] in ORACLES]
    for f in fs:
        f['property'] = ID
    if acc is not None:
        base.synth_stats(case, run, r1, acc)
        for k in _tail_kinds(case):
            acc.add('nontrivial', core.digest_int(list(k)))
        if run.outcome == 'abort' and run.exc[0] == 'TypeError':
            acc.count('probe:wrong-type-rejected')
        if any(n in case['faults'] for n in ('none', 'blank')) and run.outcome != 'abort':
            acc.count('probe:none-or-blank-stored-as-empty')
        for e in run.rec.events:
            if e[0] == 'RL' and e[3][0] == 'ok' and e[3][1][0] == 'f':
                v = float(e[3][1][1])
                if v != int(v):
                    acc.count('probe:nontrivially-rounded-float-read-by-another-line')
                    break
        acc.sample({'engine': engine, 'faults': case['faults'], 'real': run.outcome, 'exc': run.exc,
                    'stored': dict(list(run.monitor.stored.items())[:6])})
    return fs


def run_one(engine, seed, acc, tier):
    if engine == 'shipped':
        from . import shipped_props
        return shipped_props.run_one(ID, seed, acc, tier)
    rng = core.Rng(core.h64('c12', seed))
    pick = rng.pick([['wrong'], ['none'], ['blank'], ['wrong', 'none'], ['none', 'blank'], [], [], ['wrong', 'notimpl'],
                     ['blank', 'missing'], ['wrong', 'dup']])
    case = gen.gen_case(seed, force_faults=pick)
    for f in evaluate(case, engine, acc):
        acc.violation(base.violation(ID, f, case, seed, engine))


def replay(rec):
    if rec.get('engine') == 'shipped':
        from . import shipped_props
        return shipped_props.replay(ID, rec)
    return evaluate(rec['case'], rec.get('engine'))


_min_synth = base.make_minimiser(lambda c, e: evaluate(c, e))


def minimise(v):
    if str(v.get('engine', '')).startswith('shipped'):
        from . import shipped_props
        return shipped_props.minimise(ID, v)
    return _min_synth(v)


def coverage(accs, total):
    return {'distinct_nontrivial': len(total.sets.get('nontrivial', ())) + len(total.sets.get('shipped_rounded_lines', ())),
            'rule': RULE, 'samples': total.samples, 'real_vs_stub': base.REAL_VS_STUB,
            'distinct_type_kind_combinations': len(total.sets.get('nontrivial', ())),
            'distinct_shipped_lines_with_rounded_float': len(total.sets.get('shipped_rounded_lines', ()))}


MANIFEST = {
    'level': 'exploration',
    'technique': 'deterministic simulation: misbehaving line definitions as injected faults, typed event monitor under permuted orders',
    'text': ('Fault = a line definition that misbehaves (wrong Python type, None, blank text). Seeded generated programs under '
             'permuted attempt orders; every value an evaluation returns is checked for exact declared type, rounding and blank '
             'convention, every read by another line must see exactly that rounded value (the "before anything else reads them" '
             'clause is a visibility statement over schedules), and a wrong-typed result must abort with a TypeError naming the line.'),
    'note': 'Trusts the generator\'s catalogue of wrong-type values as representative; shipped-world runs only observe values real returns produce.',
}
