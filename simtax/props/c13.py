"""C13 - prompting is demand-exact; written-back answers make the run repeatable.  DESIGN.md 4 / C13."""
import configparser
import os

from .. import core, crash, gen, shipped, simrun, synth
from . import base, c20

ID = 'C13'
LEVEL = 'exploration'
PLAN = {
    'quick': [('synth_hist', 5000), ('synth_api', 12000), ('shipped_hist', 240)],
    'thorough': [('synth_hist', 200000), ('synth_api', 500000), ('shipped_hist', 10000)],
}
DEADLINE = {'quick': 220, 'thorough': 3300}
PROBES = ['run1-asked-questions', 'run1-refused', 'garbled-answer-retyped', 'rerun-asked-nothing', 'rerun-solved',
          'input-declared-but-never-read']
H3 = ('H3a', 'H3b', 'H3c', 'H3d', 'H3e')
ASSUMPTIONS = [
    'an input counts as "read and absent" when an evaluated line\'s read of it raised MissingInput (observed at the accessor seam)',
    'solutions are compared section by section as parsed by a fresh configparser',
]
RULE = ('histories `habutax solve --prompt-missing --writeback-input --solution` -> file -> `habutax solve` again through '
        'habutax.main() (generated programs and shipped forms; random initial file, file/prompt split, invalid answers retyped, '
        'optional Ctrl-C in run 1), plus solver-level sessions under seeded attempt orders for the prompt-discipline invariants. '
        'Every prompt must be for an input some evaluated line read and found absent, never for a supplied one, with a needed-by '
        'list of lines that read it; after write-back the file holds prior values + answers and nothing else; the re-run asks '
        'nothing it was told and writes the identical solution. Non-trivial: histories whose run 1 asked >= 1 question; distinct = '
        'distinct history digests among those')
F = simrun.F


def parse_solution(text):
    cfg = configparser.ConfigParser(interpolation=None)
    cfg.read_string(text)
    return {sec: dict(cfg[sec]) for sec in cfg.sections()}


def eval_hist(case, engine, acc=None):
    kind = 'synth' if engine.startswith('synth') else 'shipped'
    world = c20.synth_world(case) if kind == 'synth' else c20.shipped_world(case)
    init = c20.initial_text(case, kind)
    path = os.path.join(simrun.scratch_dir(), 'c13_in.ini')
    crash.write_text(path, init)
    fs = []
    h = case['hist']
    garble = {}
    cli1 = {'prompt': True, 'writeback': True, 'solution': True, 'garble': {},
            'interrupt': [h['refuse_at'], 'ctrlc'] if h.get('refuse_at') is not None else None}
    if h.get('garble_seed') is not None:
        # which questions get invalid answers first is a function of the input name
        class G(dict):
            def get(self, name, default=None):
                if not isinstance(name, str) or '.' not in name:
                    return default
                bad = world.invalid_texts(name)
                n = core.h64('g13', h['garble_seed'], name) % 4
                if not bad or n > 2:
                    return default
                return [bad[(core.h64('g13b', name) + j) % len(bad)] for j in range(n)]
        cli1['garble'] = G()
    try:
        run1 = crash.session(world, path, cli1)
    except (core.RunTimeout, core.BudgetExceeded) as e:
        mo = getattr(e, 'monitor', None)
        bad = [(c, m_) for c, m_ in (mo.violations if mo else []) if c in H3]
        if bad:
            return [F(ID, c, c, f'run 1 (cut off: {e}): ' + m_) for c, m_ in bad[:3]]
        raise
    for code, msg in run1.monitor.violations:
        if code in H3:
            fs.append(F(ID, code, code, 'run 1: ' + msg))
    n_garbled = sum(1 for _, _, w in run1.stdin_log if w == 'garble')
    # input() must have been called once per invalid text plus once per answer / interruption
    expected_calls = len(run1.stdin_log)
    if run1.stdin_calls != expected_calls:
        fs.append(F(ID, 'C13.retry', 'input-calls', f'run 1: input() called {run1.stdin_calls} times for {expected_calls} scripted events'))
    after = None
    if run1.file_after is not None:
        try:
            after = crash.parse_ini(run1.file_after)
        except configparser.Error as e:
            fs.append(F(ID, 'C13.file', 'malformed', f'file not well-formed after write-back: {e}'))
    else:
        fs.append(F(ID, 'C13.file', 'missing', 'no input file after write-back'))
    if after is not None:
        want = dict(run1.before_items)
        for name, text in run1.answers.items():
            sec, key = name.rsplit('.', 1)
            want[(sec, key.lower())] = text.strip()
        if after != want:
            extra = sorted(set(after) - set(want))
            missing = sorted(set(want) - set(after))
            changed = sorted(k for k in set(want) & set(after) if want[k] != after[k])
            fs.append(F(ID, 'C13.file', 'content',
                        f'file after write-back differs from prior values + answers: extra {extra[:4]} missing {missing[:4]} changed {changed[:4]}'))
    if run1.outcome in ('solved', 'failed') and run1.unmet_in is not None:
        readers = run1.monitor.missing_reads
        bogus = sorted(k for k in run1.unmet_in if k not in readers)
        if bogus:
            fs.append(F(ID, 'C13.diag', 'unread-input-reported', f'run 1 reports {bogus[:4]} as missing although no evaluated line read them'))
    if run1.outcome in ('solved', 'failed') and run1.unmet_in and not run1.monitor.refused and run1.kind == 'return':
        # demand-exact in the other direction: the user answered every question and never refused, so whatever an evaluated line
        # found absent has been asked for - a run that ends with needed inputs it never asked for stopped asking on its own
        fs.append(F(ID, 'C13.demand', 'needed-input-never-asked',
                    f'run 1: the user never refused, yet the run ended with {sorted(run1.unmet_in)[:5]} needed and never asked for'))
    run2 = None
    if after is not None and run1.kind == 'return':
        sol1 = run1.solution_file
        run2 = crash.session(world, path, {'prompt': True, 'writeback': True, 'solution': True,
                                           'interrupt': None})
        for code, msg in run2.monitor.violations:
            if code in H3:
                fs.append(F(ID, code, code, 're-run: ' + msg))
        again = sorted(set(run2.monitor.prompted) & set(run1.answers))
        if again:
            fs.append(F(ID, 'C13.rerun', 'asked-again', f're-run asked again for {again[:5]}'))
        if not run1.monitor.refused and run1.outcome in ('solved', 'failed') and run2.monitor.prompted:
            # (also after a run that failed for something unimplemented: nobody refused, so it had asked for everything it could use)
            fs.append(F(ID, 'C13.rerun', 'asked-something',
                        f're-run after a complete run ({run1.outcome}, nobody refused) asked for {run2.monitor.prompted[:5]}'))
        if not run1.monitor.refused and run1.outcome in ('solved', 'failed') and run2.kind == 'return':
            # the second run may ask for more only if the first did not get to ask (failed for other reasons); compare when nothing was asked
            if not run2.monitor.prompted:
                if run2.outcome != run1.outcome:
                    fs.append(F(ID, 'C13.rerun', 'verdict', f're-run verdict {run2.outcome}, first run {run1.outcome}'))
                if sol1 is not None and run2.solution_file is not None:
                    a, b = parse_solution(sol1), parse_solution(run2.solution_file)
                    if a != b:
                        diff = sorted(s for s in set(a) | set(b) if a.get(s) != b.get(s))
                        fs.append(F(ID, 'C13.rerun', 'solution', f're-run solution differs in sections {diff[:5]}'))
                elif (sol1 is None) != (run2.solution_file is None):
                    fs.append(F(ID, 'C13.rerun', 'solution-file', 'solution file written by only one of the two runs'))
        if run2.kind == 'return' and run2.outcome == 'solved':
            # inputs never read are not required for success: the model agrees on the final file
            if kind == 'synth':
                r1 = simrun.model_for(case, run2)
            else:
                run2.input_texts = {f'{s}.{k}': v for (s, k), v in crash.parse_ini(run2.file_after).items()}
                r1 = shipped.model_for(case['persona'], run2)
            if r1.verdict != 'solved':
                fs.append(F(ID, 'C13.model', 'success-without-inputs', f're-run solved but the model says {r1.verdict}: {r1.summary()}'))
    if acc is not None:
        acc.steps += run1.rec.attempts + run1.rec.prompts + (run2.rec.attempts if run2 else 0)
        acc.count(f'outcome:{kind}-run1-{run1.outcome}')
        if run1.monitor.prompted:
            acc.count('probe:run1-asked-questions')
            acc.add('nontrivial', core.digest_int([kind, core.digest(case)]))
        if run1.monitor.refused:
            acc.count('probe:run1-refused')
            acc.count('fault:refuse@k')
        if n_garbled:
            acc.count('probe:garbled-answer-retyped')
            acc.count('fault:garble', n_garbled)
        if run2 is not None and not run2.monitor.prompted:
            acc.count('probe:rerun-asked-nothing')
        if run2 is not None and run2.outcome == 'solved':
            acc.count('probe:rerun-solved')
        if after is not None and kind == 'synth':
            declared = set()
            for f_ in case['world']['forms']:
                for i in f_['inputs']:
                    declared.add(i['name'])
            if len({k for _, k in after}) < len(declared):
                acc.count('probe:input-declared-but-never-read')
        if case.get('layout') is not None:
            acc.count('fault:layout')
        if run1.rec.sched_seed is not None:
            acc.count('fault:schedule-permuted')
        acc.sample({'engine': engine, 'hist': h, 'run1': run1.outcome, 'asked': run1.monitor.prompted[:6],
                    'garbled': n_garbled, 'rerun_asked': (run2.monitor.prompted[:4] if run2 else None),
                    'rerun': run2.outcome if run2 else None})
    return fs


def eval_api(case, acc=None):
    run = simrun.execute(case)
    r1 = simrun.model_for(case, run)
    fs = [dict(f, property=ID) for f in simrun.judge(case, run, r1) if f['oracle'] in H3]
    if run.outcome in ('solved', 'failed'):
        bogus = sorted(k for k in run.unmet_in if k not in run.monitor.missing_reads)
        if bogus:
            fs.append(F(ID, 'C13.diag', 'unread-input-reported', f'{bogus[:4]} reported missing although no evaluated line read them'))
    if acc is not None:
        base.synth_stats(case, run, r1, acc)
        if run.monitor.prompted:
            acc.count('probe:run1-asked-questions')
            acc.add('nontrivial', core.digest_int(['api', case['world'], case['sched'], sorted(run.supplied)]))
    return fs


def evaluate(case, engine, acc=None):
    if engine == 'synth_api':
        return eval_api(case, acc)
    return eval_hist(case, engine, acc)


def make_case(engine, seed):
    rng = core.Rng(core.h64('c13', seed))
    if engine == 'synth_api':
        case = gen.gen_case(seed, clean=rng.chance(0.5))
        case['prompt'] = True
        case['file'] = [n for n in case['file'] if rng.chance(0.5) or case['persona'][n]['invalid']]
        return case
    if engine.startswith('synth'):
        case = gen.gen_case(seed, force_faults=rng.pick([[], [], [], ['notimpl'], ['notimpl'], ['notimpl', 'dup'], ['cycle'], ['dup'], ['none']]),
                            percent=rng.chance(0.12))
        case['prompt'] = True
        case['refuse_at'] = None
        case['file'] = [n for n in case['file'] if rng.chance(rng.pick([0.0, 0.4, 0.8])) or '%' in case['persona'][n]['text']]
    else:
        from . import shipped_props
        case = shipped_props.make_case(seed, 'C13', flip_p=rng.pick([0.0, 0.0, 0.01]))
        case['prompt'] = True
        case['refuse_at'] = None
    case['hist'] = {'refuse_at': rng.pick([None, None, None, 0, 1, 3, 8]),
                    'garble_seed': rng.randrange(1 << 32) if rng.chance(0.6) else None}
    return case


def run_one(engine, seed, acc, tier):
    case = make_case(engine, seed)
    for f in evaluate(case, engine, acc):
        acc.violation(base.violation(ID, f, case, seed, engine))


def replay(rec):
    return evaluate(rec['case'], rec.get('engine'))


_min_synth = base.make_minimiser(lambda c, e: evaluate(c, e))


def minimise(v):
    if v.get('engine', '').startswith('synth'):
        return _min_synth(v)
    return v


def coverage(accs, total):
    return {'distinct_nontrivial': len(total.sets.get('nontrivial', ())), 'rule': RULE, 'samples': total.samples,
            'real_vs_stub': base.REAL_VS_STUB}


MANIFEST = {
    'level': 'exploration',
    'technique': 'deterministic simulation: solve -> write-back -> solve histories with scripted user, prompt-discipline monitor',
    'text': ('Seeded histories of two invocations of `habutax solve` sharing the input file, with a scripted user (answers, invalid '
             'answers retyped, optional Ctrl-C), under permuted attempt orders; an online monitor ties every prompt to an evaluated '
             "line's failed read of that input; the re-run must ask nothing it was told and reproduce the solution file."),
    'note': 'Trusts the accessor seam for the read history and configparser as the reader of both files.',
}
