"""C14 - a written solution reads back to exactly the values that were solved.  DESIGN.md 4 / C14."""
from .. import core, simrun
from . import base, c19

ID = 'C14'
LEVEL = 'exploration'
PLAN = {
    'quick': [('synth_pipe', 6000), ('synth_twice', 6000), ('shipped_pipe', 480)],
    'thorough': [('synth_pipe', 250000), ('synth_twice', 200000), ('shipped_pipe', 20000)],
}
DEADLINE = {'quick': 220, 'thorough': 3300}
PROBES = ['second-solve-on-same-solver', 'enum-value-read-back', 'blank-read-back', 'float-read-back', 'relayout-between-steps', 'filler-values-compared']
ASSUMPTIONS = [
    'values explored are those a solve can produce (they entered through configparser already); multi-line text cannot be typed at a prompt',
    'the typed store of the solve is taken from the event log (what each line evaluation returned)',
    'weakest fit of the claimed properties: no crash is involved; it is a refinement check across the process boundary the pipeline simulation drives',
]
RULE = ('the same solve -> solution file -> fill-pdfs pipeline as C19; the typed values the solving run produced (event log) are compared '
        'with what the PDF filler holds after loading the file (and with the oracle\'s own reading through the year\'s line definitions): '
        'numbers and booleans exactly, enumerations by member, blank as blank, text up to surrounding whitespace; [habutax] tax_year and '
        'the templates/forms used must be the solving year\'s. Non-trivial: solved returns with >= 2 value types; distinct = distinct '
        '(year, participating-form set, value types present)')


def evaluate(case, engine, acc=None):
    fs = c19.evaluate(case, engine, None, want='C14')
    if acc is not None:
        # statistics need the run again only for sampling; cheap re-use through c19 with its own accounting
        class A(core.Acc):
            pass
        tmp = core.Acc()
        c19.evaluate(case, engine, tmp, want='C14')
        acc.steps += tmp.steps
        for k, v in tmp.counters.items():
            if k.startswith('outcome:') or k.startswith('fault:'):
                acc.count(k, v)
        for s in tmp.samples:
            acc.sample(s)
    return fs


def eval_twice(case, acc=None):
    """solve(), look at solution(), solve() again for one more form on the same Solver: what solution() hands out then
    must be the text form of everything that was solved"""
    from .. import gen
    run = simrun.execute(case, again=case['again'], again_always=True)
    r1 = simrun.model_for(case, run)
    fs = [dict(f, property=ID) for f in simrun.judge_common(run, r1) if f['oracle'] == 'C14.solution']
    if acc is not None:
        acc.steps += run.rec.attempts + run.rec.prompts
        acc.count(f'outcome:twice-{run.outcome}')
        acc.count('probe:second-solve-on-same-solver')
        if run.outcome != 'abort':
            acc.add('nontrivial', core.digest_int(['twice', case['world'], case['again']]))
    return fs


def run_one(engine, seed, acc, tier):
    if engine == 'synth_twice':
        from .. import gen
        rng = core.Rng(core.h64('c14twice', seed))
        case = gen.gen_case(seed, clean=rng.chance(0.7))
        case['prompt'] = True
        case['refuse_at'] = None
        others = [f for f in case['world']['forms'] if f['name'] not in [r.split(':')[0] for r in case['requested']]]
        case['again'] = []
        if others:
            o = rng.pick(others)
            case['again'] = [f"{o['name']}:{rng.pick(['0', '1', '2'])}" if o['multi'] else o['name']]
        for f in eval_twice(case, acc):
            acc.violation(base.violation(ID, f, case, seed, engine))
        return
    case = c19.make_case(engine, seed, tight=False, unicode=True)
    # a two-solution history in one process (state kept between read-backs, e.g. a cache, shows only then);
    # the prelude is explicit in the case so that a replay in a fresh process reproduces it
    pre = c19.make_case(engine, core.h64('prelude', seed), tight=False, unicode=True)
    case['prelude'] = {k: pre[k] for k in pre}
    try:
        c19.evaluate(case['prelude'], engine, None, want='C14')
    except (core.RunTimeout, core.BudgetExceeded):
        pass
    kind = 'synth' if engine.startswith('synth') else 'shipped'
    run = c19.solve_cli(case, kind, keep_old_solution=True)       # over the prelude's solution file
    fs = []
    if run.outcome in ('solved', 'failed') and run.solution_file:
        from .. import pipeline
        year, year_forms, by_name = c19.year_forms_for(case, kind)
        text = pipeline.relayout(run.solution_file, case['pipe'].get('relayout'))
        res = pipeline.fill(text, year_forms, flatten=case['pipe']['flatten'])
        f2, info = pipeline.judge_readback(dict(run.monitor.stored), text, res, by_name, year, simrun.F, None)
        fs += f2
        kinds = sorted({v[0] for v in run.monitor.stored.values()})
        if 'e' in kinds:
            acc.count('probe:enum-value-read-back')
        if any(v == ['s', ''] or v == ['n'] for v in run.monitor.stored.values()):
            acc.count('probe:blank-read-back')
        if 'f' in kinds:
            acc.count('probe:float-read-back')
        if case['pipe'].get('relayout') is not None:
            acc.count('probe:relayout-between-steps')
            acc.count('fault:layout')
        if info.get('source') == 'PDFFiller._values':
            acc.count('probe:filler-values-compared')
        acc.count('values_compared', len(run.monitor.stored))
        if len(kinds) >= 2:
            acc.add('nontrivial', core.digest_int([year, sorted(run.solution or {}), kinds]))
        acc.sample({'engine': engine, 'year': year, 'sections': sorted(run.solution or {})[:8], 'value_kinds': kinds,
                    'compared_against': info.get('source'), 'values': len(run.monitor.stored),
                    'excerpt': run.solution_file[:240]})
    acc.steps += run.rec.attempts + run.rec.prompts
    acc.count(f'outcome:{kind}-solve-{run.outcome}')
    for f in fs:
        acc.violation(base.violation(ID, f, case, seed, engine))


def _eval_with_prelude(case, engine):
    if case.get('prelude'):
        c19.evaluate(case['prelude'], engine, None, want='C14')
    return c19.evaluate(case, engine, None, want='C14', keep_old_solution=bool(case.get('prelude')))


def replay(rec):
    if rec.get('engine') == 'synth_twice':
        return eval_twice(rec['case'])
    return _eval_with_prelude(rec['case'], rec.get('engine'))


_min_synth = base.make_minimiser(lambda c, e: _eval_with_prelude(c, e))


def minimise(v):
    if v.get('engine') == 'synth_twice':
        return v
    if v.get('engine', '').startswith('synth'):
        return _min_synth(v)
    return c19.shipped_min(v, ID)


def coverage(accs, total):
    return {'distinct_nontrivial': len(total.sets.get('nontrivial', ())), 'rule': RULE, 'samples': total.samples,
            'real_vs_stub': base.REAL_VS_STUB, 'values_compared': total.counters.get('values_compared', 0)}


MANIFEST = {
    'level': 'exploration',
    'technique': 'deterministic simulation: solve -> solution file -> fill-pdfs pipeline, typed event log vs. values loaded by the filler',
    'text': ('The round trip only exists across the two-invocation pipeline the simulation drives: typed values recorded while the '
             'simulated solve ran are compared with what the PDF filler holds after loading the (optionally re-laid-out) solution '
             'file, for generated programs of every line type / decimal-place setting and for simulated returns of all three years. '
             'Refinement check rather than fault injection: the weakest fit of the claimed properties (see DESIGN.md).'),
    'note': 'Values are those a solve can produce; compares against PDFFiller._values when present, else the oracle\'s own from_string reading.',
}
