"""C19 - the fill step transmits values faithfully and files exactly the right forms.  DESIGN.md 4 / C19."""
import configparser
import os

from .. import core, crash, gen, pipeline, shipped, simrun, synth
from . import base, c20

ID = 'C19'
LEVEL = 'exploration'
PLAN = {
    'quick': [('synth_pipe', 6000), ('shipped_pipe', 480)],
    'thorough': [('synth_pipe', 250000), ('shipped_pipe', 20000)],
}
DEADLINE = {'quick': 220, 'thorough': 3300}
PROBES = ['adversarial-text-reached-fdf', 'too-long-or-bad-choice-stopped', 'form-not-filed-skipped', 'two-or-more-forms-ordered',
          'no-flatten', 'paren-in-value', 'backslash-in-value']
ASSUMPTIONS = [
    'the fake pdftk sees exactly what the real one would be handed (command lines and FDF bytes); what pdftk does with it is out of scope',
    'the mapped text is recomputed from form.pdf_fields() and the solution as read back by the oracle; limits are checked independently '
    'of TextPDFField/ChoicePDFField.value()',
    'only solved returns are piped into fill-pdfs',
]
RULE = ('solved returns (generated programs with generated PDF mappings, limits, choice lists, filing rules and sequence numbers; '
        'simulated taxpayers on the shipped forms with adversarial printable-ASCII names/addresses) are written with --solution, '
        'optionally re-laid-out, and handed to `habutax fill-pdfs` with an in-process fake pdftk, flatten on/off. Every FDF is '
        'decoded with an independent PDF string decoder and compared with the mapped text; the set, multiplicity and order of filled '
        'forms and the cat command are checked; over-long / out-of-choice values must stop the fill. Non-trivial: fills whose FDFs '
        'carried at least one of ( ) \\ " or that involved >= 2 filed forms or a limit violation; distinct = distinct '
        '(year, filed-form list, character classes) combinations')
F = simrun.F
ADVERSARIAL = ['(704) 555-0137', '(3rd floor)', 'zone (4)7', ')5', '(0', 'Apt (12', 'O(Brien', 'Smith)', '(both)', 'a\\b', 'trail\\', '\\(', 'Jo "J" K', "D'Arcy", '))((', 'x (y) z', 'C:\\dir\\f',
               'a\\nb', '\\051', 'ends(', '#5 Apt (rear)', 'x' * 40, 'A & B <c>', '50~', '{[]}', 'semi;colon', 'eq=sign',
               'x' * 199 + '\\' + 'y' * 60, 'ab(' * 90, '\\' * 260, 'q' * 198 + '()' + 'r' * 210, ('long (text) \\ ' * 30).strip()]


# text with per-cent signs: the solution's container (configparser) gives % a meaning of its own
PERCENT = ['100% sure', '50%% off', 'a%(b)s', '%', '%%', 'x %% y % z', '1% Club', 'Fifty%%%Off']


def char_classes(texts):
    s = set()
    for t in texts:
        if '(' in t or ')' in t:
            s.add('paren')
        if '\\' in t:
            s.add('backslash')
        if '"' in t or "'" in t:
            s.add('quote')
        if '%' in t:
            s.add('percent')
        if len(t) > 30:
            s.add('long')
    return sorted(s)


def solve_cli(case, kind, keep_old_solution=False):
    """keep_old_solution: write the solution over whatever the previous solve left at the same path (re-solving into
    the same file is what users do)"""
    cli = {'prompt': True, 'writeback': False, 'solution': True, 'keep_old_solution': keep_old_solution}
    if kind == 'synth':
        return simrun.execute_cli(case, cli)
    world = c20.shipped_world(case)
    path = os.path.join(simrun.scratch_dir(), 'c19_in.ini')
    crash.write_text(path, c20.initial_text(case, 'shipped'))
    return crash.session(world, path, cli)


_pinned = {}


def limits_for(case, kind):
    """length limits / choice lists per (form, PDF field): generated spec (synthetic) or pinned catalogue (shipped)"""
    if kind == 'synth':
        out = {}
        for fs in case['world']['forms']:
            d = {}
            for m_ in fs.get('pdf', []):
                ent = {}
                if m_.get('max_length') is not None:
                    ent['max_length'] = m_['max_length']
                if m_.get('choices') is not None:
                    ent['choices'] = list(m_['choices'])
                if ent:
                    d[m_['pdf_name']] = ent
            out[fs['name']] = d
        out['__mapping__'] = {fs['name']: {m_['pdf_name']: m_['line'] for m_ in fs.get('pdf', [])} for fs in case['world']['forms']}
        return out
    y = case['persona']['year']
    if y not in _pinned:
        import json
        with open(os.path.join(core.VERIF, 'catalogues', f'pdf_limits_{y}.json')) as f:
            d = json.load(f)
            _pinned[y] = dict(d['limits'], __mapping__=d['mapping'])
    return _pinned[y]


def year_forms_for(case, kind):
    if kind == 'synth':
        classes, _ = synth.build_classes(case['world'])
        return synth.SYNTH_YEAR, {synth.SYNTH_YEAR: classes}, {c.form_name: c for c in classes}
    y = case['persona']['year']
    return y, None, {c.form_name: c for c in shipped.hb_forms.available_forms[y]}


def evaluate(case, engine, acc=None, want='C19', keep_old_solution=False):
    kind = 'synth' if engine.startswith('synth') else 'shipped'
    if case.get('fill_prelude'):
        try:
            evaluate(case['fill_prelude'], engine, None, want=want)
        except (core.RunTimeout, core.BudgetExceeded):
            pass
        if acc is not None:
            acc.count('fault:earlier-fill-in-same-process')
    run = solve_cli(case, kind, keep_old_solution)
    fs = []
    year, year_forms, by_name = year_forms_for(case, kind)
    info = {}
    res = None
    if want == 'C14' and kind == 'shipped' and run.outcome in ('solved', 'failed') and run.rec.solvers:
        # the forms that worked the return out are the ones of the year the solution is labelled with
        label = None
        try:
            cfg_ = configparser.ConfigParser()
            cfg_.read_string(run.solution_file or '')
            label = cfg_.getint('habutax', 'tax_year') if cfg_.has_option('habutax', 'tax_year') else None
        except (configparser.Error, ValueError):
            pass
        if label is not None and label in shipped.hb_forms.available_forms:
            ok_classes = set(shipped.hb_forms.available_forms[label])
            alien = sorted(fo.name() for fo in run.rec.solvers[-1].forms.values() if type(fo) not in ok_classes)
            if alien:
                fs.append(F('C14', 'C14.year', 'solved-with-other-years-forms',
                            f'the solution says tax_year {label}, but forms {alien[:4]} that worked it out are not from the {label} catalogue'))
    if (run.outcome == 'solved' or (want == 'C14' and run.outcome == 'failed')) and run.solution_file:
        # (C14: the partial solution a failed solve writes is a written solution too)
        text = pipeline.relayout(run.solution_file, case['pipe'].get('relayout'))
        res = pipeline.fill(text, year_forms, flatten=case['pipe']['flatten'])
        try:
            y, forms, vals, fields = pipeline.own_read(text, by_name)
        except Exception as e:
            fs.append(F(want, f'{want}.read', 'unreadable', f'solution does not read back: {type(e).__name__}: {e}'))
            forms = None
        if forms is not None:
            if want == 'C19':
                f2, info = pipeline.judge_fill(res, forms, vals, fields, case['pipe']['flatten'], F, limits_for(case, kind))
                fs += f2
            else:
                stored = dict(run.monitor.stored)
                f2, info2 = pipeline.judge_readback(stored, text, res, by_name, year, F, None)
                fs += f2
                _, info = pipeline.judge_fill(res, forms, vals, fields, case['pipe']['flatten'], F)
                info.update(info2)
    if acc is not None:
        acc.steps += run.rec.attempts + run.rec.prompts
        acc.count(f'outcome:{kind}-solve-{run.outcome}')
        if res is not None:
            acc.count(f'outcome:{kind}-fill-{res.kind}')
            allv = [v for f_ in res.fake.fills for _, v in f_.get('pairs', [])]
            raw = ' '.join(f_.get('fdf_text', '') for f_ in res.fake.fills)
            cc = char_classes(allv) if allv else char_classes([raw])
            if cc:
                acc.count('probe:adversarial-text-reached-fdf')
                acc.count('fault:adversarial-text')
            if 'paren' in cc:
                acc.count('probe:paren-in-value')
            if 'backslash' in cc:
                acc.count('probe:backslash-in-value')
            if info.get('expected_error'):
                acc.count('probe:too-long-or-bad-choice-stopped')
                acc.count('fault:' + info['expected_error'])
            filing = info.get('filing') or []
            if len(filing) >= 2:
                acc.count('probe:two-or-more-forms-ordered')
            if forms is not None and len(filing) < len(forms):
                acc.count('probe:form-not-filed-skipped')
            if not case['pipe']['flatten']:
                acc.count('probe:no-flatten')
            if case['pipe'].get('relayout') is not None:
                acc.count('fault:layout')
            if cc or len(filing) >= 2 or info.get('expected_error'):
                acc.add('nontrivial', core.digest_int([year, filing, cc, info.get('expected_error')]))
            acc.add('formlists', core.digest_int([year, filing]))
            acc.count('fdf_fields_decoded', len(allv))
            acc.sample({'engine': engine, 'year': year, 'filed': filing, 'filled': info.get('filled'), 'chars': cc,
                        'expected_error': info.get('expected_error'), 'fill': res.kind,
                        'cmds': [pipeline.normalise_cmd(c) for c in res.fake.cmds[:3]],
                        'fdf_excerpt': [p for f_ in res.fake.fills[:1] for p in f_.get('pairs', [])[:4]]})
    return fs


import locale as _locale
UTF8 = _locale.getpreferredencoding(False).lower().replace('-', '') == 'utf8'
# text that is not in Unicode normal form C (decomposed accents, compatibility characters, conjoining jamo): it has to come
# back as the very code points that went in
NOT_NFC = ['Jose\u0301 Nu\u0303ez', 'A\u030angstro\u0308m', '\u212b unit', '\u1100\u1161\u11a8', 'e\u0301', 'Zoe\u0308 \u2126']


def make_case(engine, seed, tight=None, unicode=False):
    rng = core.Rng(core.h64('c19', seed))
    if engine.startswith('synth'):
        case = gen.gen_case(seed, force_faults=rng.pick([[], [], ['none'], ['blank']]))
        gen.add_pdf(case['world'], rng.sub('pdf'), tight=rng.chance(0.35) if tight is None else tight)
        case['prompt'] = True
        case['refuse_at'] = None
        # adversarial text through every string input
        for n, p in case['persona'].items():
            spec = simrun.input_spec_of(case['world'], n)
            if spec and spec['type'] == 'str' and rng.chance(0.6):
                t = rng.pick(PERCENT) if rng.chance(0.12) else rng.pick(ADVERSARIAL)
                if unicode and UTF8 and rng.chance(0.15):
                    t = rng.pick(NOT_NFC)
                case['persona'][n] = {'text': t, 'typed': ['s', t.strip()], 'invalid': False}
                if '%' in t and n not in case['file']:
                    case['file'].append(n)      # given in the file (written %% there), not typed at the prompt
    else:
        from . import shipped_props
        case = shipped_props.make_case(seed, 'C19', flip_p=0.0)
        case['prompt'] = True
        case['refuse_at'] = None
        per = shipped.Persona(case['persona'])
        disc = shipped_props.discover(case['persona'])
        for q in disc.monitor.prompted:
            spec = per.spec(q)
            if spec and spec['type'] == 'str' and rng.chance(0.4):
                t = rng.pick(PERCENT) if rng.chance(0.12) else rng.pick(ADVERSARIAL)
                if unicode and UTF8 and rng.chance(0.15):
                    t = rng.pick(NOT_NFC)
                case['persona']['over'][q] = t
                if '%' in t and q not in case['file']:
                    case['file'].append(q)
    case['pipe'] = {'flatten': rng.chance(0.7), 'relayout': rng.randrange(1 << 32) if rng.chance(0.4) else None}
    if not engine.startswith('synth') and unicode and rng.chance(0.15):
        case['stray_year'] = rng.pick([y for y in shipped.YEARS if y != case['persona']['year']])
    return case


def run_one(engine, seed, acc, tier):
    case = make_case(engine, seed)
    if not engine.startswith('synth') and core.Rng(core.h64('c19pre', seed)).chance(0.5):
        # another return (usually of another year) is solved and filled first, in the same process
        pre = make_case(engine, core.h64('c19prelude', seed))
        case['fill_prelude'] = {k: pre[k] for k in pre}
    for f in evaluate(case, engine, acc):
        acc.violation(base.violation(ID, f, case, seed, engine))


def replay(rec):
    return evaluate(rec['case'], rec.get('engine'))


_min_synth = base.make_minimiser(lambda c, e: evaluate(c, e))


def minimise(v):
    if v.get('engine', '').startswith('synth'):
        return _min_synth(v)
    from . import shipped_props
    return shipped_min(v, ID)


def shipped_min(v, pid):
    """persona overrides back to defaults, one at a time"""
    import copy
    case = copy.deepcopy(v['case'])
    oracle = v['oracle']
    want = pid
    tries = 0
    base_over = shipped.make_persona(case['persona']['year'], case['persona']['seed'], case['persona']['archetype'])['over']
    for q in sorted(case['persona']['over']):
        if tries > 80:
            break
        if q in base_over and case['persona']['over'][q] == base_over[q]:
            continue
        c = copy.deepcopy(case)
        if q in base_over:
            c['persona']['over'][q] = base_over[q]
        else:
            del c['persona']['over'][q]
        tries += 1
        try:
            if any(f['oracle'] == oracle for f in evaluate(c, v.get('engine'), want=want)):
                case = c
        except (Exception, core.HarnessError):
            pass
    fs = [f for f in evaluate(case, v.get('engine'), want=want) if f['oracle'] == oracle]
    if fs:
        v = dict(v, case=case, msg=fs[0]['msg'], key=fs[0]['key'], minimised=True)
    return v


def coverage(accs, total):
    return {'distinct_nontrivial': len(total.sets.get('nontrivial', ())), 'rule': RULE, 'samples': total.samples,
            'real_vs_stub': base.REAL_VS_STUB, 'distinct_filed_form_lists': len(total.sets.get('formlists', ())),
            'fdf_fields_decoded': total.counters.get('fdf_fields_decoded', 0)}


MANIFEST = {
    'level': 'exploration',
    'technique': 'deterministic simulation: two-process pipeline solve -> file -> fill-pdfs with in-process fake pdftk and independent FDF decoder',
    'text': ('Seeded pipeline runs: a simulated solve writes a solution, the file is optionally re-laid-out, `habutax fill-pdfs` runs '
             'against a fake pdftk bound at the subprocess seam that records commands and decodes every FDF with an independent '
             'implementation of the PDF literal-string syntax. Adversarial printable-ASCII text is injected through string inputs; '
             'generated PDF mappings exercise limits, choice lists, filing rules and ordering.'),
    'note': 'pdftk itself is a stub (not installed); the check stops at the bytes handed to it.',
}
