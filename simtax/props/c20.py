"""C20 - interrupting an interactive solve never loses input already given.  DESIGN.md 4 / C20."""
import os

from .. import core, crash, gen, shipped, simrun, synth
from . import base

ID = 'C20'
LEVEL = 'fault_enumeration'
PLAN = {
    'quick': [('synth_exhaustive', 1400), ('synth_multi', 1400), ('shipped_exhaustive', 16), ('shipped_multi', 96), ('synth_extended', 1200)],
    'thorough': [('synth_exhaustive', 50000), ('synth_multi', 50000), ('shipped_exhaustive', 480), ('shipped_multi', 4000), ('synth_extended', 40000)],
}
DEADLINE = {'quick': 220, 'thorough': 3300}
PROBES = ['interrupted-mid-session', 'eof-mid-session', 'ctrlc-during-retry', 'session-aborted-by-unsupported-form',
          'session-aborted-by-failing-line', 'multi-round-history', 'no-initial-file', 'resume-finished-solved']
ASSUMPTIONS = [
    'well-formed = a fresh configparser.ConfigParser reads the file (the reader the next `habutax solve` uses)',
    'values are compared up to surrounding whitespace and key case, which configparser does not preserve',
    'only the interruption kinds the statement lists are demanded: Ctrl-C at a prompt (incl. at the retry prompt), end of input, '
    'unsupported form, failing line definition; a second interrupt or a disk error during the write-back itself is not demanded',
]
RULE = ('interactive `habutax solve --prompt-missing --writeback-input` sessions through habutax.main() with scripted stdin on real '
        'files; for a session that asks P questions EVERY k in [0,P] x {Ctrl-C, EOF} is injected (exhaustive over crash points '
        'per session), plus Ctrl-C/EOF at the "Invalid input, try again?" retry, sessions that abort by themselves (unsupported '
        'form, raising line) after k answers, and multi-round histories interrupt-resume-interrupt-...-finish. After every '
        'session the file must parse, hold every prior value and every answer given; a resumed session must not ask again and must '
        'end like the uninterrupted session. Non-trivial: interruptions with 0 < k < P that actually fired; distinct = distinct '
        '(session, k, kind) triples among those')

F = simrun.F


def synth_world(case):
    classes, _ = synth.build_classes(case['world'])
    persona = case['persona']

    def answer(name):
        p = persona.get(name)
        if p is None:
            raise core.HarnessError(f'prompt for {name}, which the persona does not know')
        return p['text']

    enums = synth.build_enums(case['world'])

    def invalid_texts(name):
        spec = simrun.input_spec_of(case['world'], name)
        if not spec:
            return []
        obj = synth._make_input(spec, enums)
        return [t for t in gen.INVALID.get(spec['type'], []) if not obj.valid(t)]
    return crash.World(synth.SYNTH_YEAR, case['requested'], answer, case['sched'], {synth.SYNTH_YEAR: classes},
                       dup=case.get('dup', False), invalid_texts=invalid_texts)


def shipped_world(scase):
    per = shipped.Persona(scase['persona'])

    return crash.World(scase['persona']['year'], scase['persona']['forms'], per.text, scase['sched'], None,
                       budget=40000, invalid_texts=per.invalid_texts)


def initial_text(case, kind):
    if case.get('no_file'):
        return None
    if kind == 'synth':
        return gen.file_text(case)
    per = shipped.Persona(case['persona'])
    items = [(n, per.text(n).replace('%', '%%')) for n in case['file']]
    if case.get('stray_year') is not None:
        # the header of a solution file of another year, pasted into the input file (not an input of any form)
        items.append(('habutax.tax_year', str(case['stray_year'])))
    return gen.file_text(items, layout=case.get('layout'))


def evaluate(case, engine, acc=None):
    try:
        return _evaluate(case, engine, acc)
    except (core.RunTimeout, core.BudgetExceeded) as e:
        # a session that never ends because it keeps asking what it was already told is this property's business
        mo = getattr(e, 'monitor', None)
        again = [m_ for c, m_ in (mo.violations if mo else []) if c.startswith('H3')]
        if again:
            return [F(ID, 'C20.reask', 'asked-again-in-session', f'session cut off ({e}): {again[0]}')]
        raise


def _evaluate(case, engine, acc=None):
    kind = 'synth' if engine.startswith('synth') else 'shipped'
    world = synth_world(case) if kind == 'synth' else shipped_world(case)
    init = initial_text(case, kind)
    path = os.path.join(simrun.scratch_dir(), 'c20_in.ini')
    fs = []
    # reference: the uninterrupted session
    crash.write_text(path, init)
    ref = crash.session(world, path, {'prompt': True, 'writeback': True, 'solution': False})
    P = len(ref.monitor.prompted)
    f2, _ = crash.check_file_after(ref, F, 'uninterrupted session')
    fs += f2
    if acc is not None:
        acc.steps += ref.rec.attempts + ref.rec.prompts
        acc.count(f'outcome:{kind}-reference-{ref.outcome}')
        if init is None:
            acc.count('probe:no-initial-file')
        if ref.outcome == 'abort' and ref.answers:
            if ref.exc[0] == 'NotImplementedError':
                acc.count('probe:session-aborted-by-unsupported-form')
                acc.count('fault:unsupported-form')
            else:
                acc.count('probe:session-aborted-by-failing-line')
                acc.count('fault:line-raises')
            acc.add('nontrivial', core.digest_int([kind, core.digest(case), 'self-abort']))
    hists = case.get('histories')
    if hists is None:
        hists = []
        if engine.endswith('exhaustive'):
            for k in range(P + 1):
                hists.append([[k, 'ctrlc']])
                hists.append([[k, 'eof']])
        else:
            rng = core.Rng(core.h64('c20h', core.digest(case)))
            for _ in range(rng.pick([2, 3, 4])):
                n = rng.pick([1, 2, 2, 3, 4])
                hists.append([[rng.randrange(P + 2), rng.pick(['ctrlc', 'eof', 'ctrlc', 'ctrlc_retry', 'eof_retry'])] for _ in range(n)])
    # invalid texts typed before an interruption at the retry prompt
    garble = case.get('garble')
    if garble is None:
        garble = {}
        for k, name in enumerate(ref.monitor.prompted):
            bad = world.invalid_texts(name)
            if bad:
                garble[name] = [bad[core.h64('g', name) % len(bad)]]
    for h in hists:
        f3, info = crash.interrupted_history(world, init, h, garble, F, path=path, ref=ref)
        for f in f3:
            f['history'] = h
        fs += f3
        if acc is not None:
            acc.count('interrupted_sessions', len(h))
            for r in info['rounds']:
                if r['fired']:
                    acc.count('fault:' + {'ctrlc': 'refuse@k', 'eof': 'eof@k', 'ctrlc_retry': 'ctrlc-at-retry',
                                          'eof_retry': 'eof-at-retry'}[r['kind']])
                    if 0 < r['k'] < P:
                        acc.add('nontrivial', core.digest_int([kind, core.digest(case), r['k'], r['kind']]))
                        acc.count('probe:interrupted-mid-session')
                        if r['kind'] == 'eof':
                            acc.count('probe:eof-mid-session')
                    if r['kind'].endswith('_retry') and r.get('retry_fired'):
                        acc.count('probe:ctrlc-during-retry')
            if len(h) > 1:
                acc.count('probe:multi-round-history')
            if info.get('final', {}).get('outcome') == 'solved':
                acc.count('probe:resume-finished-solved')
        if fs and acc is None:
            break
    if acc is not None:
        acc.sample({'engine': engine, 'questions_in_uninterrupted_session': P, 'reference': ref.outcome,
                    'histories': hists[:4], 'n_histories': len(hists),
                    'initial_file': None if init is None else init[:200]})
    return fs


def make_case(engine, seed):
    rng = core.Rng(core.h64('c20', seed))
    if engine.startswith('synth'):
        faults = rng.pick([[], [], ['raise'], ['unsup_ln'], ['unsup_in'], ['notimpl'], ['cycle'], ['raise', 'unsup_ln'],
                           ['wrong'], ['unk_ln'], ['corrupt'], ['corrupt', 'notimpl']])
        case = gen.gen_case(seed, force_faults=faults, percent=rng.chance(0.15))
        case['prompt'] = True
        case['refuse_at'] = None
        keep = rng.pick([0.0, 0.3, 0.7])
        case['file'] = [n for n in case['file'] if rng.chance(keep) or case['persona'][n]['invalid'] or '\n' in case['persona'][n]['text']
                        or '%' in case['persona'][n]['text']]
        if rng.chance(0.1) and not any(p_['invalid'] or '\n' in p_['text'] or '%' in p_['text'] for p_ in case['persona'].values()):
            case['file'] = []
            case['no_file'] = True
        return case
    from . import shipped_props
    case = shipped_props.make_case(seed, 'C20', flip_p=rng.pick([0.0, 0.0, 0.02]))
    case['prompt'] = True
    case['refuse_at'] = None
    if rng.chance(0.15):
        # a text value with a per-cent sign, given in the file (written %% there)
        per = shipped.Persona(case['persona'])
        strs = [q for q in shipped_props.discover(case['persona']).monitor.prompted if (per.spec(q) or {}).get('type') == 'str']
        if strs:
            q = rng.pick(strs)
            case['persona']['over'][q] = rng.pick(['Fifty% Off Outlet', '100%% sure', '1% Club'])
            if q not in case['file']:
                case['file'].append(q)
    elif rng.chance(0.1):
        case['file'] = []
        case['no_file'] = True
    return case


def run_one(engine, seed, acc, tier):
    case = make_case(engine, seed)
    if engine == 'synth_extended':
        extended_observation(case, seed, acc)      # observations only, never a violation
        return
    fs = evaluate(case, engine, acc)
    seen = set()
    for f in fs:
        if (f['oracle'], f['key']) in seen:
            continue
        seen.add((f['oracle'], f['key']))
        c = dict(case)
        if 'history' in f:
            c['histories'] = [f['history']]
        acc.violation(base.violation(ID, f, c, seed, engine))


def replay(rec):
    return evaluate(rec['case'], rec.get('engine'))


_min_synth = base.make_minimiser(lambda c, e: evaluate(c, e))


def minimise(v):
    if v.get('engine', '').startswith('synth'):
        return _min_synth(v)
    return v


def coverage(accs, total):
    return {'distinct_nontrivial': len(total.sets.get('nontrivial', ())), 'rule': RULE, 'samples': total.samples,
            'evaluations': total.counters.get('interrupted_sessions', 0) + total.runs,
            'sessions': total.runs, 'interrupted_sessions': total.counters.get('interrupted_sessions', 0),
            'exhaustive': False,
            'exhaustive_note': 'exhaustive over the interruption point k and kind {Ctrl-C, EOF} for every session of the *_exhaustive engines; sessions themselves are sampled',
            'extended_observations': {k: v for k, v in sorted(total.counters.items()) if k.startswith('extended:')},
            'extended_observations_note': 'disk errors during the write-back itself and asynchronous interrupts inside solve() are outside the statement; counted, never flagged',
            'real_vs_stub': base.REAL_VS_STUB}


MANIFEST = {
    'level': 'fault_enumeration',
    'technique': 'deterministic simulation: crash-point enumeration (every prompt index x {Ctrl-C, EOF}) on simulated interactive sessions',
    'text': ('The crash-consistency property. Interactive write-back sessions run through habutax.main() with scripted stdin on real '
             'files; for each sampled session every interruption point and kind is enumerated, plus self-aborting sessions and multi-'
             'round interrupt/resume histories. Durable state (the file) is re-read by a fresh parser after every session and '
             'compared with what was there before plus every answer given; resumed sessions must not re-ask and must converge to the '
             'uninterrupted result.'),
    'note': ('Exhaustive over crash points per session, sampled over sessions. Faults during the write-back itself (torn write, '
             'ENOSPC, second Ctrl-C) are outside the statement and not demanded.'),
}


# ----------------------------------------------------------------------------------
# extended faults - OBSERVATIONS ONLY (DESIGN.md 2.4): disk errors during the write-back itself and an asynchronous
# interrupt anywhere inside solve().  C20's statement enumerates its interruption kinds and these are not among
# them, so nothing here ever produces a VIOLATION; the counts go into the evidence as `extended_observations`.
# ----------------------------------------------------------------------------------
class _FailingFile(object):
    def __init__(self, real, budget, kind):
        self.real, self.budget, self.kind = real, budget, kind

    def write(self, text):
        if len(text) > self.budget:
            self.real.write(text[:self.budget])
            self.budget = 0
            import errno
            raise OSError(errno.ENOSPC if self.kind == 'enospc' else errno.EIO, 'injected write failure')
        self.budget -= len(text)
        return self.real.write(text)

    def __enter__(self):
        return self

    def __exit__(self, *a):
        self.real.close()
        return False


def extended_observation(case, seed, acc):
    import builtins
    import sys
    from habutax import inputs as hb_inputs
    rng = core.Rng(core.h64('c20x', seed))
    world = synth_world(case)
    init = initial_text(case, 'synth')
    path = os.path.join(simrun.scratch_dir(), 'c20x_in.ini')
    crash.write_text(path, init)
    before = crash.parse_ini(init) if init is not None else {}
    kind = rng.pick(['enospc', 'torn', 'async-interrupt'])
    state = {'n': 0}
    try:
        if kind in ('enospc', 'torn'):
            budget = rng.pick([0, 5, 20, 60, 200])

            def failing_open(file, mode='r', *a, **k):
                f = builtins.open(file, mode, *a, **k)
                if 'w' in mode and str(file) == path:
                    return _FailingFile(f, budget, kind)
                return f
            hb_inputs.open = failing_open
            run = crash.session(world, path, {'prompt': True, 'writeback': True, 'solution': False})
        else:
            fire_at = rng.pick([50, 200, 800, 2500])

            def tracer(frame, event, arg):
                if event == 'line' and 'habutax' in frame.f_code.co_filename and 'simtax' not in frame.f_code.co_filename:
                    state['n'] += 1
                    if state['n'] == fire_at:
                        raise KeyboardInterrupt()
                return tracer
            sys.settrace(tracer)
            try:
                run = crash.session(world, path, {'prompt': True, 'writeback': True, 'solution': False})
            except KeyboardInterrupt:
                # landed in habutax code the harness itself calls after main() returned (e.g. solution()): not a session event
                acc.count('extended:async-interrupt:landed-outside-the-session')
                return
            finally:
                sys.settrace(None)
    except (core.RunTimeout, core.BudgetExceeded):
        acc.count(f'extended:{kind}:did-not-finish')
        return
    finally:
        if hasattr(hb_inputs, 'open') and 'open' in vars(hb_inputs):
            del hb_inputs.open
        sys.settrace(None)
    fired = (kind != 'async-interrupt') or state['n'] >= 1
    try:
        with open(path) as f:
            after = crash.parse_ini(f.read())
        intact = all(after.get(k) == v for k, v in before.items())
        kept = all(after.get((n.rsplit('.', 1)[0], n.rsplit('.', 1)[1])) == t.strip() for n, t in run.answers.items())
        acc.count(f'extended:{kind}:' + ('file-intact-and-answers-kept' if intact and kept else
                                         'prior-values-kept-answers-lost' if intact else 'prior-values-lost'))
    except Exception:
        acc.count(f'extended:{kind}:file-unreadable')
    acc.count(f'fault:extended-{kind}')
