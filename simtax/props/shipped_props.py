"""Shipped-world engines shared by C01 C03 C04 C05 C12 (and, through make_case, others).

A shipped case is explicit and JSON-able:
  {'persona': pdict, 'file': [names pre-supplied], 'prompt': bool, 'refuse_at': k|None,
   'sched': [seed|None, period], 'layout': seed|None, 'faults': [...], 'variants': [...] (C05)}"""
import copy

from .. import core, shipped, simrun
from . import base

SELECT = {
    'C01': lambda f: f['property'] == 'C01',
    'C03': lambda f: f['oracle'] in ('H1', 'H2', 'C03.model', 'C03.stored', 'C03.input'),
    'C04': lambda f: f['oracle'] in ('C04.model', 'C04.history'),
    'C12': lambda f: f['oracle'] in ('C12.type', 'C12.stored', 'H1'),
    'C05': lambda f: f['oracle'] in ('C05.model', 'P1'),
    'C06': lambda f: f['oracle'] in ('H3a', 'H4', 'H5b', 'H5n', 'H5c', 'T0', 'T1', 'T2', 'C06.lost', 'P1'),
    'C13': lambda f: f['oracle'] in ('H3a', 'H3b', 'H3c', 'H3d', 'H3e'),
    'C11': lambda f: f['oracle'] in ('H6',),
}

AMOUNTS = ['0', '12.5', '250', '1499.99', '1500.01', '3100.4', '12000', '0.005', '47.555']


def discover(pdict):
    """fault-free, natural-order, everything-prompted session: which inputs does this persona's return need?"""
    return shipped.execute(pdict, prompt=True)


def make_case(seed, prop, flip_p=None, archetype=None):
    rng = core.Rng(core.h64('shipcase', prop, seed))
    year = rng.pick(shipped.YEARS)
    pdict = shipped.make_persona(year, seed, archetype)
    disc = discover(pdict)
    D = list(disc.monitor.prompted)
    persona = shipped.Persona(pdict)
    faults = []
    if flip_p is None:
        flip_p = {'C01': rng.pick([0.0, 0.01, 0.03]), 'C05': rng.pick([0.0, 0.0, 0.02])}.get(prop, rng.pick([0.0, 0.0, 0.01]))
    over = pdict['over']
    for q in D:
        if q in over:
            continue
        spec = persona.spec(q)
        if spec is None:
            continue
        if spec['type'] == 'float' and rng.chance(0.06):
            over[q] = rng.pick(AMOUNTS)
        elif spec['type'] == 'bool' and rng.chance(flip_p):
            over[q] = 'no' if shipped.default_text(q, spec, pdict) == 'yes' else 'yes'
            faults.append(f'flip:{q}')
        elif spec['type'] == 'str' and rng.chance(0.05):
            over[q] = rng.pick(['O(Brien', 'a\\b', 'Jo "J" K', 'x' * 40, 'Dr. A. B. C', 'Where St #12', '# 12', 'Unit ;3'])
    case = {'persona': pdict, 'sched': [None, 0] if rng.chance(0.15) else [rng.randrange(1 << 32), rng.pick([0, 0, 1, 3])],
            'layout': None if rng.chance(0.5) else rng.randrange(1 << 32), 'prompt': True, 'refuse_at': None}
    p_file = rng.pick([0.0, 0.3, 0.7, 1.0])
    case['file'] = [q for q in D if rng.chance(p_file)]
    if rng.chance(0.3 if prop == 'C09' else 0.12):
        # stray sections: inputs of an instanced form also given under the un-instanced section name (nobody reads those)
        for q in D:
            form, inst, b = shipped.split_name(q)
            if inst is not None and rng.chance(0.5):
                stray = f'{form}.{b}'
                spec = persona.spec(stray)
                if spec is not None and stray not in case['file']:
                    if spec['type'] == 'float':
                        over[stray] = rng.pick(AMOUNTS)
                    case['file'].append(stray)
        faults.append('stray-sections')
    if prop in ('C01', 'C05', 'C06') and rng.chance(0.35):
        k = rng.random()
        if k < 0.4 and D:
            case['refuse_at'] = rng.randrange(min(len(D), 40) + 1)
            faults.append('refuse')
        elif k < 0.7:
            case['prompt'] = False
            case['file'] = [q for q in D if rng.chance(0.9)]
            faults.append('missing')
        elif case['file']:
            q = rng.pick(case['file'])
            spec = persona.spec(q)
            from ..gen import INVALID
            bad = INVALID.get(spec['type'])
            if bad:
                over[q] = rng.pick(bad)
                faults.append(f'corrupt:{q}')
    if prop == 'C04' and rng.chance(0.15):
        # only a part of the return is asked for (one of its statements), while the file also holds everything else
        insts = sorted({f'{f_}:{i_}' for f_, i_, _ in map(shipped.split_name, D) if i_ is not None})
        if insts:
            pdict['forms'] = [rng.pick(insts)] + ([rng.pick(insts)] if rng.chance(0.2) else [])
            faults.append('partial-request')
    case['faults'] = faults
    return case


def execute(case, **kw):
    args = dict(file_names=case['file'], sched=tuple(case['sched']), prompt=case['prompt'],
                refuse_at=case['refuse_at'], layout=case['layout'])
    args.update(kw)
    return shipped.execute(case['persona'], **args)


def execute_cli(case):
    """the same session through habutax.main() with the real prompt_input (scripted stdin)"""
    import os
    from .. import crash
    from . import c20
    world = c20.shipped_world(case)
    path = os.path.join(simrun.scratch_dir(), 'ship_cli_in.ini')
    crash.write_text(path, c20.initial_text(case, 'shipped'))
    cli = {'prompt': case['prompt'], 'writeback': False, 'solution': False,
           'interrupt': [case['refuse_at'], 'ctrlc'] if case.get('refuse_at') is not None else None}
    run = crash.session(world, path, cli)
    texts = {f'{sec}.{k}': v for (sec, k), v in run.before_items.items()}
    texts.update({n: t for n, t in run.answers.items()})
    run.input_texts = texts
    return run


def stats(case, run, r1, acc, prop):
    acc.steps += run.rec.attempts + run.rec.prompts
    acc.count(f'outcome:shipped-{run.outcome}/{r1.verdict}')
    m = run.monitor
    if m.refused:
        acc.count('fault:refuse')
    if any(e[0] == 'X' and e[2][0] == 'notimpl' for e in run.rec.events):
        acc.count('fault:unimplemented')
    if run.exc is not None:
        t, msg = run.exc
        if t == 'NotImplementedError':
            acc.count('fault:unsupported-form')
        elif t == 'InvalidInput':
            acc.count('fault:corrupt-value')
        else:
            acc.count('fault:line-raises')
    if run.unmet_in:
        acc.count('fault:missing-input')
    if run.rec.sched_seed is not None:
        acc.count('fault:schedule-permuted')
    if case.get('layout') is not None:
        acc.count('fault:layout')
    if m.answered and case['file']:
        acc.count('fault:split-file/prompt')
    if m.reattempts:
        acc.count('probe:line-reattempted')
    if m.refused and any(ws for ws in m.reg.values()):
        acc.count('probe:refusal-with-waiters-outstanding')
    if run.outcome == 'abort' and m.prompted:
        acc.count('probe:abort-after-prompts')
    forms = sorted(run.solution) if run.solution else []
    if run.outcome == 'solved':
        acc.add('shipped_solved_formsets', core.digest_int([case['persona']['year'], forms]))
        for f in forms:
            acc.count('probe:solved-with-' + f.split(':')[0])
    acc.count('seam:sort_keys_calls', run.rec.sort_calls)
    acc.count('seam:accessor_reads', run.rec.accessor_reads)
    acc.add('traces', run.trace_digest())
    if prop == 'C01' and r1.verdict != 'solved':
        acc.count('probe:not-solved-by-model')
        acc.add('nontrivial', core.digest_int(['ship', case['persona']['year'], sorted(run.input_texts.items())]))
    if prop == 'C03' and m.reattempts:
        acc.add('nontrivial', run.trace_digest())
        if run.outcome == 'failed' and run.solution:
            acc.count('probe:partial-solution-checked')
        if m.answered:
            acc.count('probe:prompt-interleaved-with-computation')
    if prop == 'C04' and run.outcome == 'solved':
        cat = shipped.catalogue(case['persona']['year'])
        flat = simrun.flat_solution(run)
        opt = sorted(q for q in flat if q.split('.')[1] in cat[q.split('.')[0].split(':')[0]]['optional'])
        if opt:
            acc.count('probe:optional-line-demanded')
        if set(forms) - set(run.requested):
            acc.count('probe:form-loaded-on-demand')
        readers = set(e[2].split('.')[0] for e in run.rec.events if e[0] == 'RI' and e[3][0] == 'ok')
        if readers - set(forms):
            acc.count('probe:foreign-input-read-without-participation')
        nospec = set(e[2][1].split('.')[0] for e in run.rec.events if e[0] == 'X' and e[2][0] == 'nospec')
        if nospec & set(forms):
            acc.count('probe:input-only-load-then-full')
        acc.add('nontrivial', core.digest_int([case['persona']['year'], forms, opt]))
    if prop == 'C12':
        for e in run.rec.events:
            if e[0] == 'V' and e[2][0] == 'f':
                v = float(e[2][1])
                if v != int(v):
                    acc.add('shipped_rounded_lines', core.digest_int([case['persona']['year'], e[1].split(':')[0], e[1].split('.')[1]]))
    acc.sample({'engine': 'shipped', 'year': case['persona']['year'], 'archetype': case['persona']['archetype'],
                'requested': run.requested, 'faults': case['faults'], 'real': run.outcome, 'exc': run.exc,
                'model': r1.verdict, 'prompts': len(m.prompted), 'in_file': len(case['file']),
                'forms_in_solution': forms, 'sched': case['sched']})


def evaluate(prop, case, acc=None):
    if prop == 'C05':
        return evaluate_group(case, acc)
    if case.get('prelude'):
        # an earlier, slightly different return solved in the same process (nothing of it is judged)
        try:
            shipped.execute(case['prelude'], prompt=True)
        except (core.RunTimeout, core.BudgetExceeded):
            pass
        if acc is not None:
            acc.count('fault:earlier-return-in-same-process')
    try:
        run = execute_cli(case) if case.get('level') == 'cli' else execute(case)
    except (core.RunTimeout, core.BudgetExceeded) as e:
        if prop == 'C06':
            return [simrun.F('C06', 'C06.term', 'no-termination', f'shipped session did not finish: {type(e).__name__} {e}')]
        if prop == 'C03' and getattr(e, 'rec', None) is not None:
            # a session that was cut off: what its lines had received until then is judged all the same
            per = shipped.Persona(case['persona'])
            fs = shipped.input_read_findings(case['persona'], e.rec.events, per.text)
            fs += [simrun.F('C03', c, c, m_) for c, m_ in e.monitor.violations if c in ('H1', 'H2')]
            if fs:
                return [dict(f, msg=f['msg'] + f' (session cut off: {e})') for f in fs]
        raise
    if run.outcome == 'unknown':
        return []
    r1 = shipped.model_for(case['persona'], run)
    fs = [dict(f, property=prop) for f in shipped.judge(case['persona'], run, r1) if SELECT[prop](f)]
    if acc is not None:
        stats(case, run, r1, acc, prop)
    return fs


# ---- C05 groups on the shipped forms ----
def group_variants(case, seed, n):
    rng = core.Rng(core.h64('shipgroup', seed))
    out = []
    for _ in range(n):
        out.append({'sched': [rng.randrange(1 << 32), rng.pick([0, 1, 3])] if rng.chance(0.85) else [None, 0],
                    'layout': rng.randrange(1 << 32) if rng.chance(0.6) else None,
                    'split': rng.pick(['same', 'allfile', 'reprompt', 'reprompt']),
                    'split_seed': rng.randrange(1 << 32),
                    'form_order': rng.randrange(1 << 32) if rng.chance(0.5) else None})
        if rng.chance(0.2):
            # a return of another tax year was solved in this process just before (its own year's forms, its own inputs)
            out[-1]['after_year'] = rng.pick([y for y in shipped.YEARS if y != case['persona']['year']])
    return out


def evaluate_group(case, acc=None):
    from . import c05
    F = simrun.F
    fs = []
    base_run = execute(case)
    runs = [('base', base_run)]
    refused = base_run.monitor.refused
    read_ok = sorted({e[2] for e in base_run.rec.events if e[0] == 'RI' and e[3][0] == 'ok'})
    for v in case.get('variants', []):
        if refused:
            v = dict(v, split='same')
        if v['split'] == 'same':
            names, prompt, refuse = list(case['file']), case['prompt'], case['refuse_at']
        elif v['split'] == 'allfile':
            names, prompt, refuse = list(base_run.supplied), False, None
        else:
            r = core.Rng(core.h64('split', v['split_seed']))
            drop = {n for n in read_ok if r.chance(0.5)}
            names, prompt, refuse = [n for n in base_run.supplied if n not in drop], True, None
        req = list(case['persona']['forms'])
        if v['form_order'] is not None and len(req) > 1:
            core.Rng(core.h64('fo', v['form_order'])).shuffle(req)
        if v.get('after_year') is not None:
            core.reset_code_state()        # as in a fresh process in which the other year's return comes first
            try:
                shipped.execute(shipped.make_persona(v['after_year'], core.h64('after_year', v['split_seed']), 'single_w2'), prompt=True)
            except (core.RunTimeout, core.BudgetExceeded):
                pass
        runs.append((v, c05.guarded(lambda: execute(case, file_names=names, sched=tuple(v['sched']), prompt=prompt,
                                                    refuse_at=refuse, layout=v['layout'], requested=req), base_run.supplied)))
    for tag, run in runs:
        if run.outcome == 'no-termination':
            continue
        r1 = shipped.model_for(case['persona'], run)
        for f in shipped.judge(case['persona'], run, r1):
            if f['oracle'] in ('C05.model', 'P1'):
                fs.append(dict(f, property='C05', msg=f'variant {tag}: ' + f['msg']))
            elif f['oracle'] == 'C03.model':
                fs.append(dict(f, property='C05', oracle='C05.values', msg=f'variant {tag}: ' + f['msg']))
        if (run.outcome == 'abort') != (r1.verdict == 'abort'):
            fs.append(F('C05', 'C05.abort', 'abort-ness', f'variant {tag}: run {run.outcome} {run.exc}, model {r1.verdict} {r1.summary()["aborts"]}'))
    by_inputs = {}
    for tag, run in runs:
        key = tuple(sorted((k, v.strip()) for k, v in run.input_texts.items())) if run.outcome != 'no-termination' \
            else tuple(sorted((k, v.strip()) for k, v in base_run.input_texts.items()))
        by_inputs.setdefault(key, []).append((tag, run))
    for sup, grp in by_inputs.items():
        o0 = c05.observable(grp[0][1])
        for tag, run in grp[1:]:
            o = c05.observable(run)
            if o != o0:
                what = 'verdict' if o[0] != o0[0] else 'solution' if o[1] != o0[1] else 'diagnostics'
                fs.append(F('C05', 'C05.group', what, f'variants {grp[0][0]} and {tag} have equal final inputs but differ in {what}: '
                                                      f'{str(o0)[:300]} vs {str(o)[:300]}'))
                break
    if acc is not None:
        traces = {run.trace_digest() for _, run in runs}
        acc.steps += sum(run.rec.attempts + run.rec.prompts for _, run in runs)
        acc.count('outcome:shipped-' + base_run.outcome)
        if len(traces) >= 2:
            acc.count('probe:group-with-distinct-traces')
            for t in traces:
                acc.add('nontrivial', t)
        for v in case.get('variants', []):
            if v['split'] != 'same' and not refused:
                acc.count('probe:split-variant')
            if v['layout'] is not None:
                acc.count('probe:layout-variant')
            if v['form_order'] is not None and len(case['persona']['forms']) > 1:
                acc.count('probe:form-order-variant')
        if refused:
            acc.count('probe:refusal-variant')
        if base_run.outcome == 'failed':
            acc.count('probe:failed-group')
        if base_run.outcome == 'abort':
            acc.count('probe:aborting-group')
        acc.count('seam:sort_keys_calls', sum(run.rec.sort_calls for _, run in runs))
        acc.count('fault:schedule-permuted', sum(1 for _, run in runs if run.rec.sched_seed is not None))
        acc.sample({'engine': 'shipped_group', 'year': case['persona']['year'], 'archetype': case['persona']['archetype'],
                    'group_size': len(runs), 'distinct_traces': len(traces), 'verdict': base_run.outcome,
                    'final_input_sets': len(by_inputs)})
    return fs


def add_prelude(case, seed):
    """the same taxpayer with one amount nudged, solved first in the same process"""
    rng = core.Rng(core.h64('shipprelude', seed))
    pre = copy.deepcopy(case['persona'])
    cands = []
    for q, t in sorted(pre['over'].items()):
        if q.endswith(('.box_1', '.box_1a', '.box_2a')):
            try:
                cands.append((q, float(t)))
            except ValueError:
                pass
    if cands:
        q, v = rng.pick(cands)
        pre['over'][q] = str(round(max(0.0, v + rng.pick([5, 10, 25, -25, 45.5, -10, 50, 0.01, 1000])), 2))
    case['prelude'] = pre
    return case


def run_one(prop, seed, acc, tier, level=None):
    if level == 'after':
        case = make_case(seed, prop, archetype='low_income_investor' if core.Rng(core.h64('after', seed)).chance(0.35) else None)
        add_prelude(case, seed)
        level = None
    else:
        case = make_case(seed, prop)
    if level:
        case['level'] = level
    if prop == 'C05':
        case['variants'] = group_variants(case, seed, core.Rng(seed).pick([4, 6, 8]))
    engine = 'shipped_group' if prop == 'C05' else ('shipped_cli' if level == 'cli' else ('shipped_after' if case.get('prelude') else 'shipped'))
    for f in evaluate(prop, case, acc):
        acc.violation(base.violation(prop, f, case, seed, engine))


def replay(prop, rec):
    return evaluate(prop, rec['case'])


def minimise(prop, v):
    """persona overrides back to archetype defaults (one-at-a-time delta debugging), simpler session"""
    case = copy.deepcopy(v['case'])
    oracle = v['oracle']
    tries = [0]

    def fails(c):
        core.reset_code_state()
        tries[0] += 1
        try:
            return any(f['oracle'] == oracle for f in evaluate(prop, c))
        except (Exception, core.HarnessError, core.RunTimeout, core.BudgetExceeded):
            return False

    def attempt(mut):
        nonlocal case
        c = copy.deepcopy(case)
        if mut(c) is False:
            return
        if tries[0] < 150 and fails(c):
            case = c
    if case.get('variants'):
        for k in range(len(case['variants']) - 1, -1, -1):
            attempt(lambda c, k=k: c['variants'].pop(k))
    attempt(lambda c: c.update(sched=[None, 0]))
    attempt(lambda c: c.update(layout=None))
    attempt(lambda c: c.update(refuse_at=None) if c.get('refuse_at') is not None else False)
    attempt(lambda c: c.update(file=[]) if c['prompt'] else False)
    base_over = shipped.make_persona(case['persona']['year'], case['persona']['seed'], case['persona']['archetype'])['over']
    for q in sorted(case['persona']['over']):
        if q not in base_over or case['persona']['over'][q] != base_over[q]:
            def reset(c, q=q):
                if q in base_over:
                    c['persona']['over'][q] = base_over[q]
                else:
                    del c['persona']['over'][q]
            attempt(reset)
    fs = [f for f in evaluate(prop, case) if f['oracle'] == oracle]
    if fs:
        v = dict(v, case=case, msg=fs[0]['msg'], key=fs[0]['key'], minimised=True)
        v['case']['shrunk'] = {'tries': tries[0]}
    return v
