"""Reference models (DESIGN.md 2.5).

R1  naive sweep solver: same observable interface as habutax's Solver (verdict, values,
    demanded lines, diagnostics), trivial inside: no queue, no dependency tracker, no
    release bookkeeping.  It evaluates every demanded line against the current values and
    the FINAL inputs of a run until nothing changes.  Monotone, hence order independent -
    which is why it can judge every schedule of the real solver.
    R1Synth  : generated form programs, own interpreter context, own name qualification,
               own rounding, the generator's typed input values.
    R1Shipped: real shipped forms; line semantics are the forms' own value() functions
               run against dict-backed mappings owned by the model.
R2  dependency-bookkeeping model (multiset of registrations + pending list).
R3  PDF literal-string decoder (ISO 32000-1 7.3.4.2)."""
from . import core
from . import synth


class EV(object):
    """enum value of the model side"""
    __slots__ = ('enum_name', 'name')

    def __init__(self, enum_name, name):
        self.enum_name, self.name = enum_name, name

    def __eq__(self, o):
        return isinstance(o, EV) and (o.enum_name, o.name) == (self.enum_name, self.name)

    def __hash__(self):
        return hash((self.enum_name, self.name))

    def __repr__(self):
        return f'EV({self.enum_name}.{self.name})'


def decode(n):
    """norm-list -> model-side Python value"""
    k = n[0]
    if k == 'n':
        return None
    if k in ('b', 'i', 's'):
        return n[1]
    if k == 'f':
        return float(n[1])
    if k == 'e':
        return EV(n[1], n[2])
    raise core.HarnessError(f'decode {n}')


class Blocked(Exception):
    def __init__(self, kind, name):
        self.kind, self.name = kind, name


class Abort(Exception):
    def __init__(self, kind, detail=''):
        self.kind, self.detail = kind, detail


class Unimpl(Exception):
    pass


EMPTY = {'float': 0.0, 'int': 0, 'bool': False, 'str': '', 'enum': None}
PYTYPE = {'float': float, 'int': int, 'bool': bool, 'str': str}


def split_inst(forminst):
    """'w:1' -> ('w', '1');  'fa' -> ('fa', None)"""
    if ':' in forminst:
        b, i = forminst.split(':', 1)
        return b, i
    return forminst, None


class R1Result(object):
    def __init__(self):
        self.values = {}        # qualified line -> norm-list
        self.demanded = set()
        self.forms = set()      # participating form instances
        self.unimpl = set()
        self.missing = {}       # missing input -> set(lines blocked on it)
        self.blocked = {}       # line without value -> set(lines blocked on it)
        self.aborts = {}        # line -> (kind, detail)
        self.verdict = None
        self.evals = 0

    def summary(self):
        return {'verdict': self.verdict, 'values': len(self.values), 'unimpl': sorted(self.unimpl),
                'missing': {k: sorted(v) for k, v in sorted(self.missing.items())},
                'blocked': {k: sorted(v) for k, v in sorted(self.blocked.items())},
                'aborts': {k: list(v) for k, v in sorted(self.aborts.items())}}


class _SynthCtx(object):
    def __init__(self, model, forminst):
        self.m = model
        self.forminst = forminst

    def _q(self, ref):
        return ref if '.' in ref else f'{self.forminst}.{ref}'

    def inp(self, ref):
        return self.m.read_input(self._q(ref))

    def line(self, ref):
        return self.m.read_line(self._q(ref))

    # the Mapping conveniences of the accessor are reads like any other: a default is never substituted for a
    # line or input that simply has not been produced yet
    def line_get(self, ref, default):
        return self.m.read_line(self._q(ref))

    def inp_get(self, ref, default):
        return self.m.read_input(self._q(ref))

    def line_has(self, ref):
        self.m.read_line(self._q(ref))
        return True

    def notimpl(self):
        raise Unimpl()

    def threshold(self, name, key):
        base, _ = split_inst(self.forminst)
        t = (self.m.forms[base].get('thresholds') or {}).get(name)
        if t is None:
            raise Abort('line-error', f'no threshold {name}')
        if isinstance(t, dict):
            if key is None:
                raise Abort('line-error', f'threshold {name} needs a key')
            for members, value in t['table']:
                if getattr(key, 'enum_name', None) == t['enum'] and key.name in members:
                    return value
            raise Abort('line-error', f'threshold {name} has no entry for {key}')
        if key is not None:
            raise Abort('line-error', f'threshold {name} takes no key')
        return t

    def enum_member(self, ename, member):
        return EV(ename, member)

    def same_member(self, x, c):
        return x is not None and getattr(x, 'enum_name', None) == c.enum_name and getattr(x, 'name', None) == c.name


class R1Synth(object):
    def __init__(self, world, inputs, requested, field_names=()):
        """inputs: {qualified input name: ('ok', model value) | ('invalid', text)} - the FINAL
        supplied inputs of the run being judged."""
        self.world = world
        self.forms = {f['name']: f for f in world['forms']}
        self.lines = {}
        for f in world['forms']:
            req, opt = synth.lines_of(f)
            self.lines[f['name']] = ({l['name']: l for l in req}, {l['name']: l for l in opt},
                                     [l['name'] for l in req])
        self.inputs = inputs
        self.requested = list(requested)
        self.field_names = list(field_names)
        self.res = R1Result()
        self.vals = {}           # qualified line -> model value

    # reads ------------------------------------------------------------------------
    def read_input(self, q):
        if q.count('.') != 1:
            raise Abort('bad-name', q)
        forminst, x = q.split('.')
        base, _ = split_inst(forminst)
        if forminst.count(':') > 1:
            raise Abort('bad-name', q)
        if base not in self.forms:
            raise Abort('unsupported', base)
        if not any(i['name'] == x for i in self.forms[base]['inputs']):
            raise Abort('unknown-name', q)
        got = self.inputs.get(q)
        if got is None:
            raise Blocked('input', q)
        if got[0] == 'invalid':
            raise Abort('invalid-input', q)
        return got[1]

    def participate(self, forminst):
        if forminst in self.res.forms:
            return
        base, _ = split_inst(forminst)
        if forminst.count(':') > 1:
            raise Abort('bad-name', forminst)
        if base not in self.forms:
            raise Abort('unsupported', base)
        self.res.forms.add(forminst)
        for n in self.lines[base][2]:
            self.res.demanded.add(f'{forminst}.{n}')

    def read_line(self, q):
        if q in self.vals:
            return self.vals[q]
        if q.count('.') != 1:
            raise Abort('bad-name', q)
        forminst, y = q.split('.')
        base, _ = split_inst(forminst)
        if base not in self.forms:
            raise Abort('unsupported', base)
        req, opt, _ = self.lines[base]
        self.participate(forminst)
        if y not in req and y not in opt:
            raise Abort('unknown-name', q)
        self.res.demanded.add(q)
        raise Blocked('line', q)

    # evaluation -------------------------------------------------------------------
    def eval_line(self, q):
        forminst, y = q.split('.')
        base, _ = split_inst(forminst)
        req, opt, _ = self.lines[base]
        line = req.get(y) or opt.get(y)
        ctx = _SynthCtx(self, forminst)
        r = synth.ev(line['expr'], ctx)
        t = line['type']
        if isinstance(r, synth.Raw):
            k = r.kind[0]
            if k in ('none', 'blank'):
                return EMPTY[t]
            raise Abort('type-error', q)
        if line.get('raw'):
            # inputform line: the input's typed value as is
            v = r
            if v is None:
                return EMPTY[t]
            if t == 'str' and v.strip() == '':
                return ''
            if t == 'float':
                return round(v, 2)
            return v
        v = synth.cast(r, line)
        if v is None:
            return EMPTY[t]
        if t == 'str' and v.strip() == '':
            return ''
        if t == 'float':
            return round(v, line.get('places', 2))
        return v

    def run(self):
        res = self.res
        try:
            for rn in self.requested:
                self.participate(rn)
            for fn in self.field_names:
                # a line can only be asked for by name if its form instance is among the requested ones (nothing else is
                # known to the solver at that point): anything else is a malformed request
                if fn.count('.') != 1 or fn.split('.')[0] not in res.forms:
                    raise Abort('bad-name', fn)
                req_, opt_, _ = self.lines[split_inst(fn.split('.')[0])[0]]
                if fn.split('.')[1] not in req_ and fn.split('.')[1] not in opt_:
                    raise Abort('bad-name', fn)
                res.demanded.add(fn)
        except Abort as a:
            res.aborts['<request>'] = (a.kind, a.detail)
            res.verdict = 'abort'
            return res
        state = {}     # line -> ('blocked', kind, name) | ('unimpl',) | ('abort',)
        changed = True
        while changed:
            changed = False
            for q in sorted(res.demanded):
                if q in self.vals:
                    continue
                st = state.get(q)
                if st is not None:
                    if st[0] != 'blocked':
                        continue
                    if st[1] == 'input':
                        continue            # final inputs never change
                    if st[2] not in self.vals:
                        continue
                before = len(res.demanded) + len(res.forms)
                res.evals += 1
                try:
                    v = self.eval_line(q)
                except Blocked as b:
                    new = ('blocked', b.kind, b.name)
                    if state.get(q) != new:
                        changed = True
                    state[q] = new
                except Unimpl:
                    state[q] = ('unimpl',)
                    res.unimpl.add(q)
                    changed = True
                except Abort as a:
                    state[q] = ('abort',)
                    res.aborts[q] = (a.kind, a.detail)
                    changed = True
                except synth.SynthLineError:
                    state[q] = ('abort',)
                    res.aborts[q] = ('line-error', '')
                    changed = True
                else:
                    self.vals[q] = v
                    changed = True
                if len(res.demanded) + len(res.forms) != before:
                    changed = True
        for q, st in state.items():
            if q in self.vals or st[0] != 'blocked':
                continue
            if st[1] == 'input':
                res.missing.setdefault(st[2], set()).add(q)
            else:
                res.blocked.setdefault(st[2], set()).add(q)
        res.values = {q: core.norm(v) for q, v in self.vals.items()}
        if res.aborts:
            res.verdict = 'abort'
        elif res.unimpl or res.missing or res.blocked:
            res.verdict = 'failed'
        else:
            res.verdict = 'solved'
        return res


def synth_final_inputs(case, supplied_names, run=None):
    """model-side typed inputs for the names that were supplied in a run"""
    out = {}
    noise = {f'{sec}.{key}' for sec, key, _ in case.get('noise') or []}
    for n in supplied_names:
        p = case['persona'].get(n)
        if p is None:
            if n in noise:
                continue           # a section nothing reads (its name differs in case from a real one)
            raise core.HarnessError(f'input {n} supplied but not in persona')
        if 'default_text' in p and run is not None and n not in run.monitor.answered:
            sec, key = n.rsplit('.', 1)
            if (run.config_items or {}).get((sec, key), '').strip() == p['default_text']:
                out[n] = ('ok', decode(p['default_typed']))      # provided by the [DEFAULT] section
                continue
        out[n] = ('invalid', p['text']) if p['invalid'] else ('ok', decode(p['typed']))
    return out


# ----------------------------------------------------------------------------------
# R2: dependency bookkeeping
# ----------------------------------------------------------------------------------
class R2(object):
    """What the dependency bookkeeping must do, stated as plainly as possible."""

    def __init__(self):
        self.waiting = {}       # dependency -> list of waiter tokens (multiset)
        self.pending = []       # met, not yet fully drained dependencies (in meet order)

    def add_unmet(self, dep, waiter):
        self.waiting.setdefault(dep, []).append(waiter)

    def meet(self, dep):
        self.pending.append(dep)

    def has_met(self):
        return len(self.pending) > 0

    def has_unmet(self):
        return any(ws and dep not in self.pending for dep, ws in self.waiting.items())

    def releasable(self):
        """multiset of waiters a drain may release now: waiters of pending dependencies"""
        out = []
        for dep in dict.fromkeys(self.pending):
            out.extend(self.waiting.get(dep, []))
        return out

    def release(self, waiter_token, dep):
        self.waiting[dep].remove(waiter_token)
        if not self.waiting[dep]:
            del self.waiting[dep]

    def drained(self):
        self.pending = []


# ----------------------------------------------------------------------------------
# R3: PDF literal string decoder
# ----------------------------------------------------------------------------------
class PDFSyntaxError(Exception):
    pass


def pdf_parse_literal(data, pos):
    """data[pos] must be '('.  Returns (decoded str, position after the closing paren)."""
    if data[pos] != '(':
        raise PDFSyntaxError(f'expected ( at {pos}')
    depth = 1
    i = pos + 1
    out = []
    n = len(data)
    while i < n:
        c = data[i]
        if c == '\\':
            i += 1
            if i >= n:
                raise PDFSyntaxError('dangling backslash')
            d = data[i]
            if d in 'nrtbf':
                out.append({'n': '\n', 'r': '\r', 't': '\t', 'b': '\b', 'f': '\f'}[d])
                i += 1
            elif d in '()\\':
                out.append(d)
                i += 1
            elif d in '01234567':
                j = i
                while j < n and j < i + 3 and data[j] in '01234567':
                    j += 1
                out.append(chr(int(data[i:j], 8) & 0xFF))
                i = j
            elif d == '\r':
                i += 1
                if i < n and data[i] == '\n':
                    i += 1
            elif d == '\n':
                i += 1
            else:
                out.append(d)          # backslash ignored
                i += 1
            continue
        if c == '(':
            depth += 1
            out.append(c)
        elif c == ')':
            depth -= 1
            if depth == 0:
                return ''.join(out), i + 1
            out.append(c)
        elif c == '\r':
            out.append('\n')
            if i + 1 < n and data[i + 1] == '\n':
                i += 1
        else:
            out.append(c)
        i += 1
    raise PDFSyntaxError('unterminated string')


def fdf_parse(data):
    """Parse the FDF text habutax writes: returns list of (T, V) pairs decoded under PDF
    string syntax.  Raises PDFSyntaxError if the /Fields array is not made of well-formed
    << /T (..) /V (..) >> dictionaries."""
    start = data.find('/Fields [')
    if start < 0:
        raise PDFSyntaxError('no /Fields array')
    i = start + len('/Fields [')
    n = len(data)
    pairs = []

    def skip_ws(i):
        while i < n and data[i] in ' \t\r\n\f\0':
            i += 1
        return i
    while True:
        i = skip_ws(i)
        if i >= n:
            raise PDFSyntaxError('unterminated /Fields array')
        if data[i] == ']':
            break
        if not data.startswith('<<', i):
            raise PDFSyntaxError(f'expected << at {i}: {data[i:i+20]!r}')
        i = skip_ws(i + 2)
        entry = {}
        while not data.startswith('>>', i):
            if data[i] != '/':
                raise PDFSyntaxError(f'expected /Key at {i}: {data[i:i+20]!r}')
            j = i + 1
            while j < n and data[j] not in ' \t\r\n(/<>[]':
                j += 1
            key = data[i + 1:j]
            j = skip_ws(j)
            if j >= n or data[j] != '(':
                raise PDFSyntaxError(f'expected string value for /{key}')
            val, j = pdf_parse_literal(data, j)
            if key in entry:
                raise PDFSyntaxError(f'duplicate key /{key}')
            entry[key] = val
            i = skip_ws(j)
            if i >= n:
                raise PDFSyntaxError('unterminated dictionary')
        if set(entry) != {'T', 'V'}:
            raise PDFSyntaxError(f'field dictionary with keys {sorted(entry)}')
        pairs.append((entry['T'], entry['V']))
        i += 2
    return pairs
