"""The seams the simulator owns (DESIGN.md section 1).  All of them are module- or
class-level attributes that habutax looks up at call time, so no hook in /repo is needed.

  S1  habutax.solver.sort_keys          -> seeded scheduler (attempt / release / prompt order)
  obs habutax.form.FormAccessor          -> recording subclass (complete read history)
  obs habutax.fields.<Field>.value       -> attempt / return / raise events, step budget
  S2  habutax.input, habutax.prompt_input-> scripted stdin, prompt events        (CLI level)
  obs habutax.solver.Solver.__init__     -> capture the instance the CLI builds
  S5  habutax.pdf_filler.subprocess      -> in-process fake pdftk

`Recorder` collects the event log of one run.  Recording never draws randomness, never
reads a clock and never changes what the wrapped code returns or raises."""
import contextlib

from . import core

hb = core.import_habutax()
from habutax import solver as hb_solver      # noqa: E402
from habutax import form as hb_form          # noqa: E402
from habutax import fields as hb_fields      # noqa: E402
from habutax import inputs as hb_inputs      # noqa: E402
from habutax import values as hb_values      # noqa: E402
from habutax import pdf_filler as hb_pdf_filler  # noqa: E402


class Recorder(object):
    def __init__(self, budget=20000, sched_seed=None, period=0, monitor=None):
        self.events = []
        self.depth = 0
        self.stack = []          # names of fields whose value() is executing (outermost only)
        self.attempts = 0
        self.prompts = 0
        self.sort_calls = 0
        self.accessor_reads = 0
        self.trackers = 0
        self.budget = budget
        self.prompt_budget = 3000
        self.sched_seed = sched_seed
        self.period = period
        self.monitor = monitor
        self.solvers = []
        self.fillers = []

    def emit(self, ev):
        self.events.append(ev)
        core.trace_feed(ev)
        if self.monitor is not None:
            self.monitor.feed(ev)

    def current(self):
        return self.stack[-1] if self.stack else None

    # attempt tracing ---------------------------------------------------------------
    def enter(self, field):
        self.depth += 1
        if self.depth == 1:
            self.attempts += 1
            if self.attempts > self.budget:
                self.depth -= 1
                raise core.BudgetExceeded(f'more than {self.budget} line attempts')
            name = field.name()
            self.stack.append(name)
            self.emit(('A', name))
            return True
        return False

    def leave_val(self, field, top, value):
        self.depth -= 1
        if top:
            name = self.stack.pop()
            self.emit(('V', name, core.norm(value)))

    def leave_exc(self, field, top, exc):
        self.depth -= 1
        if top:
            name = self.stack.pop()
            self.emit(('X', name, classify_exc(exc)))


def classify_exc(e):
    if isinstance(e, hb_values.UnmetDependency):
        return ['unmet', e.dependency]
    if isinstance(e, hb_inputs.MissingInput):
        return ['missing', e.input_name]
    if isinstance(e, hb_inputs.MissingInputSpecification):
        return ['nospec', e.input_name]
    if isinstance(e, hb_fields.FieldNotImplemented):
        return ['notimpl', e.field_name]
    if isinstance(e, hb_inputs.InvalidInput):
        return ['invalid', e.input_name]
    return ['exc', type(e).__name__]


def _wrap_value(rec, orig):
    def value(self, inputs, values):
        top = rec.enter(self)
        try:
            r = orig(self, inputs, values)
        except BaseException as e:
            rec.leave_exc(self, top, e)
            raise
        rec.leave_val(self, top, r)
        return r
    value._simtax_orig = orig
    return value


def _make_accessor(rec, orig_cls):
    class RecAccessor(orig_cls):
        def __getitem__(self, key):
            rec.accessor_reads += 1
            try:
                q = key if '.' in key else f'{self.form.name()}.{key}'
            except Exception:
                q = repr(key)
            kind = 'RI' if isinstance(self.mapping, hb_inputs.InputStore) else 'RL'
            try:
                val = orig_cls.__getitem__(self, key)
            except BaseException as e:
                rec.emit((kind, rec.current(), q, classify_exc(e)))
                raise
            rec.emit((kind, rec.current(), q, ['ok', core.norm(val)]))
            return val
    RecAccessor.__name__ = 'FormAccessor'
    return RecAccessor


def _wname(w):
    try:
        return w.name()
    except Exception:
        return repr(w)


def _make_tracker(rec, orig_cls):
    class RecTracker(orig_cls):
        def __init__(self, *a, **k):
            orig_cls.__init__(self, *a, **k)
            self._simtax_id = rec.trackers
            rec.trackers += 1

        def add_unmet(self, dependency_name, dependent):
            rec.emit(('TR', self._simtax_id, dependency_name, _wname(dependent)))
            return orig_cls.add_unmet(self, dependency_name, dependent)

        def meet(self, dependency_name):
            rec.emit(('TM', self._simtax_id, dependency_name))
            return orig_cls.meet(self, dependency_name)

        def met_dependents(self):
            for d in orig_cls.met_dependents(self):
                rec.emit(('TY', self._simtax_id, _wname(d)))
                yield d
    RecTracker.__name__ = 'DependencyTracker'
    return RecTracker


def _make_sort_keys(rec, orig):
    def sort_keys(x):
        rec.sort_calls += 1
        if rec.sched_seed is None:
            return orig(x)
        name = x
        if not isinstance(x, str):
            name = x.name()
        ep = (rec.attempts // rec.period) if rec.period else 0
        return core.h64(rec.sched_seed, ep, name)
    return sort_keys


@contextlib.contextmanager
def installed(rec, stdin=None, fake_subprocess=None, prompt_events=True):
    """Install all seams for one run and remove them afterwards.
    stdin: callable(prompt_text) -> str, may raise KeyboardInterrupt / EOFError (CLI level)."""
    saved = []

    def patch(obj, attr, new):
        missing = object()
        old = obj.__dict__.get(attr, missing) if isinstance(obj, type) else getattr(obj, attr, missing)
        saved.append((obj, attr, old, missing))
        setattr(obj, attr, new)

    try:
        # S1 scheduler
        if not hasattr(hb_solver, 'sort_keys'):
            raise core.HarnessError('seam missing: habutax.solver.sort_keys')
        patch(hb_solver, 'sort_keys', _make_sort_keys(rec, hb_solver.sort_keys))
        # read history
        patch(hb_form, 'FormAccessor', _make_accessor(rec, hb_form.FormAccessor))
        # attempt events
        for cname in sorted(vars(hb_fields)):
            c = getattr(hb_fields, cname)
            if isinstance(c, type) and issubclass(c, hb_fields.Field) and 'value' in c.__dict__ \
                    and c is not hb_fields.Field:
                patch(c, 'value', _wrap_value(rec, c.__dict__['value']))
        # register / meet / release events of the dependency bookkeeping
        if hasattr(hb_solver, 'DependencyTracker'):
            patch(hb_solver, 'DependencyTracker', _make_tracker(rec, hb_solver.DependencyTracker))
        # capture solver instances
        orig_init = hb_solver.Solver.__init__

        def solver_init(self, *a, **k):
            rec.solvers.append(self)
            return orig_init(self, *a, **k)
        patch(hb_solver.Solver, '__init__', solver_init)
        # CLI level: stdin and prompt events
        if stdin is not None:
            patch(hb, 'input', stdin)
        if prompt_events and hasattr(hb, 'prompt_input'):
            orig_prompt = hb.prompt_input

            def prompt_input(missing, needed_by):
                rec.prompts += 1
                if rec.prompts > rec.prompt_budget:
                    raise core.BudgetExceeded(f'more than {rec.prompt_budget} questions asked')
                name = missing.name()
                nb = [f.name() for f in needed_by]
                rec.emit(('P', name, nb))
                # what the question shows the user as "needed by" must be those very lines
                try:
                    want = sorted({(f.form().instance() or '', f.form().full_description(), f.base_name()) for f in needed_by})
                except Exception:
                    want = None
                inner_input = hb.input
                seen_first = []

                def spy(prompt_text=''):
                    if not seen_first and want is not None:
                        seen_first.append(1)
                        import re as _re
                        got = set()
                        for ln in str(prompt_text).split('\n'):
                            m_ = _re.match(r" \* (?:Instance '(.+?)' of )?(.+), line '(.+)'$", ln)
                            if m_:
                                got.add((m_.group(1) or '', m_.group(2), m_.group(3)))
                        if 'Additional input is needed by' in str(prompt_text) and sorted(got) != want:
                            rec.emit(('PQ', name, [list(x) for x in sorted(got - set(want))][:3], [list(x) for x in sorted(set(want) - got)][:3]))
                    return inner_input(prompt_text)
                hb.input = spy
                try:
                    res = orig_prompt(missing, needed_by)
                except BaseException as e:
                    rec.emit(('PX', name, type(e).__name__))
                    raise
                finally:
                    hb.input = inner_input
                value, supplied = res
                rec.emit(('PR', name, ['answer', value] if supplied else ['refuse']))
                return res
            patch(hb, 'prompt_input', prompt_input)
        # S5 fake pdftk
        if fake_subprocess is not None:
            patch(hb_pdf_filler, 'subprocess', fake_subprocess)
            orig_pinit = hb_pdf_filler.PDFFiller.__init__

            def filler_init(self, *a, **k):
                rec.fillers.append(self)
                return orig_pinit(self, *a, **k)
            patch(hb_pdf_filler.PDFFiller, '__init__', filler_init)
        yield rec
    finally:
        for obj, attr, old, missing in reversed(saved):
            if old is missing:
                try:
                    delattr(obj, attr)
                except AttributeError:
                    pass
            else:
                setattr(obj, attr, old)


def solver_prompt(rec, answer_fn):
    """Prompt callable for direct Solver use.  answer_fn(name, input_obj, k) -> text or
    None (= refuse).  Emits the same P / PR events as the CLI-level wrapper."""
    def prompt(missing, needed_by):
        k = rec.prompts
        rec.prompts += 1
        if rec.prompts > rec.prompt_budget:
            raise core.BudgetExceeded(f'more than {rec.prompt_budget} questions asked')
        name = missing.name()
        rec.emit(('P', name, [f.name() for f in needed_by]))
        text = answer_fn(name, missing, k)
        if text is None:
            rec.emit(('PR', name, ['refuse']))
            return (None, False)
        rec.emit(('PR', name, ['answer', text]))
        return (text, True)
    return prompt
