"""Shipped world: the real ty2021/22/23 forms driven by a simulated taxpayer (DESIGN.md 2.1).

A persona is a pure function  answer(qualified input name) -> text , built from an archetype
plus seeded perturbation.  Being a function of the *name* - not of the order in which
questions arrive - is what makes runs under different schedules comparable.  The input
catalogue (names, types, enum members, regexes) is introspected from the working tree."""
import os
import re

from . import core
from . import monitor as mon
from . import seams
from . import simrun

hb = core.import_habutax()
from habutax import forms as hb_forms        # noqa: E402
from habutax import inputs as hb_inputs      # noqa: E402
from habutax import fields as hb_fields      # noqa: E402
from habutax import solver as hb_solver      # noqa: E402
from habutax import form as hb_form          # noqa: E402

YEARS = sorted(y for y in hb_forms.available_forms if isinstance(y, int) and y < 9000)

_catalogue = {}


def input_type(i):
    t = type(i)
    if t is hb_inputs.BooleanInput:
        return 'bool'
    if t is hb_inputs.IntegerInput:
        return 'int'
    if t is hb_inputs.FloatInput:
        return 'float'
    if t is hb_inputs.EnumInput:
        return 'enum_empty' if i.allow_empty else 'enum'
    if t is hb_inputs.RegexInput:
        return 'regex'
    if t is hb_inputs.SSNInput:
        return 'ssn'
    if t is hb_inputs.StringInput:
        return 'str'
    return 'other:' + t.__name__


def field_type(f):
    for cls, n in ((hb_fields.FloatField, 'float'), (hb_fields.IntegerField, 'int'), (hb_fields.BooleanField, 'bool'),
                   (hb_fields.StringField, 'str'), (hb_fields.EnumField, 'enum')):
        if isinstance(f, cls):        # a subclass of FloatField still declares a money/decimal line
            return n
    return 'other:' + type(f).__name__


def catalogue(year):
    """{form_name: {'cls', 'instances': [..] or None, 'inputs': {base: spec}, 'required': [names], 'optional': [names],
                    'is_inputform': bool}}"""
    if year in _catalogue:
        return _catalogue[year]
    cat = {}
    for cls in hb_forms.available_forms[year]:
        insts = getattr(cls, 'valid_instances', None)
        obj = cls(instance=(insts[0] if insts else None))
        ins = {}
        iobjs = {}
        for i in obj.inputs():
            iobjs[i.base_name()] = i
            spec = {'type': input_type(i)}
            if spec['type'] in ('enum', 'enum_empty'):
                spec['members'] = list(i.enum.__members__)
            if spec['type'] == 'regex':
                spec['regex'] = i._regex_str
            ins[i.base_name()] = spec
        req = [f.base_name() for f in obj.required_fields()]
        opt = [f.base_name() for f in obj.fields() if f.base_name() not in set(req)]
        ftypes = {f.base_name(): field_type(f) for f in obj.fields()}
        cat[cls.form_name] = {'cls': cls, 'instances': list(insts) if insts else None, 'inputs': ins, 'input_objs': iobjs,
                              'required': req, 'optional': opt, 'field_types': ftypes,
                              'places': {f.base_name(): getattr(f, '_places', None) for f in obj.fields()},
                              'is_inputform': isinstance(obj, hb_form.InputForm)}
    _catalogue[year] = cat
    return cat


def split_name(q):
    forminst, base = q.rsplit('.', 1)
    form = forminst.split(':')[0]
    inst = forminst.split(':')[1] if ':' in forminst else None
    return form, inst, base


# ----------------------------------------------------------------------------------
# personas
# ----------------------------------------------------------------------------------
ARCHETYPES = ['single_w2', 'joint_interest_dividends', 'itemizer', 'parent_ctc', 'hsa', 'ira_8606',
              'high_earner', 'nc_resident', 'retiree_1099r', 'minimal', 's1_additional_income', 's1_adjustments',
              's3_credits', 'qbi_dividends', 'foreign_tax', 'nc_itemizer', 'joint_hsa_spouse', 'low_income_investor']
STD_SINGLE = {2021: 12550.0, 2022: 12950.0, 2023: 13850.0}

FIRST = ['Pat', 'Alex', 'Sam', 'Jo', 'Robin']
LAST = ['Doe', 'Smith', 'Nguyen', 'Garcia', 'Lee']
STATUSES = ['Single', 'MarriedFilingJointly', 'MarriedFilingSeparately', 'HeadOfHousehold']


def make_persona(year, seed, archetype=None):
    """-> persona dict (JSON-able): {'year', 'archetype', 'seed', 'over': {qualified name: text}, 'forms': [requested]}"""
    rng = core.Rng(core.h64('persona', year, seed))
    arch = archetype or rng.pick(ARCHETYPES)
    all_statuses = list(catalogue(year)['1040']['inputs']['filing_status']['members'])
    over = {}
    forms = ['1040']
    wages = rng.pick([62000, 75000, 88000.5, 120000, 43000.25])
    status = 'Single'
    n_w2 = 1

    def w2(n, amount, who='taxpayer'):
        over[f'w-2:{n}.box_1'] = f'{amount}'
        over[f'w-2:{n}.box_2'] = f'{round(amount * 0.12, 2)}'
        over[f'w-2:{n}.box_3'] = f'{amount}'
        over[f'w-2:{n}.box_4'] = f'{round(amount * 0.062, 2)}'
        over[f'w-2:{n}.box_5'] = f'{amount}'
        over[f'w-2:{n}.box_6'] = f'{round(amount * 0.0145, 2)}'
        over[f'w-2:{n}.box_16'] = f'{amount}'
        over[f'w-2:{n}.box_17'] = f'{round(amount * 0.04, 2)}'
        over[f'w-2:{n}.belongs_to'] = who
        over[f'w-2:{n}.box_15'] = 'NC'
        if rng.chance(0.4):
            # (II - Medicaid waiver payments - is a box 12 code from tax year 2023 on)
            over[f'w-2:{n}.box_12a_code'] = rng.pick(['D', 'DD', 'AA', 'W'] + (['II', 'II'] if year >= 2023 else []))
            over[f'w-2:{n}.box_12a_value'] = str(rng.pick([500, 1500.5]))

    if arch == 'minimal':
        n_w2 = 1
        wages = 70000
    elif arch == 'single_w2':
        n_w2 = rng.pick([1, 1, 2])
        status = rng.pick(['Single', 'HeadOfHousehold', 'MarriedFilingSeparately'])
    elif arch == 'joint_interest_dividends':
        status = 'MarriedFilingJointly'
        n_w2 = 2
        wages = rng.pick([90000, 130000])
        ni = rng.pick([1, 2, 3])
        nd = rng.pick([0, 1, 2])
        over['1040.number_1099-int'] = str(ni)
        over['1040.number_1099-div'] = str(nd)
        big = rng.chance(0.5)
        for n in range(ni):
            over[f'1099-int:{n}.payer'] = f'Bank {n}'
            over[f'1099-int:{n}.box_1'] = str(rng.pick([120.5, 800, 1600.25]) if big else rng.pick([12.5, 80, 300]))
        for n in range(nd):
            over[f'1099-div:{n}.payer'] = f'Fund {n}'
            a = rng.pick([500, 2500.75]) if big else rng.pick([50, 400])
            over[f'1099-div:{n}.box_1a'] = str(a)
            over[f'1099-div:{n}.box_1b'] = str(round(a * rng.pick([0, 0.5, 1.0]), 2))
    elif arch == 'itemizer':
        status = rng.pick(['Single', 'MarriedFilingJointly'])
        wages = rng.pick([150000, 210000])
        over['1040.itemize'] = 'yes'
        over['1040.number_1098'] = '1'
        over['1098:0.box_1'] = str(rng.pick([9000, 18000.5, 26000]))
        over['1040_sa.state_local_income_taxes'] = 'yes'
        over['1040_sa.real_estate_taxes'] = str(rng.pick([3000, 6500]))
        over['1040_sa.charity_cash'] = str(rng.pick([0, 1200, 5000]))
        over['1040_sa.gifts_cash_check'] = str(rng.pick([0, 1200, 5000]))
    elif arch == 'parent_ctc':
        status = rng.pick(['MarriedFilingJointly', 'HeadOfHousehold'])
        nd = rng.pick([1, 2, 3])
        over['1040.number_dependents'] = str(nd)
        wages = rng.pick([95000, 140000])
        nctc = 0
        for n in range(nd):
            over[f'1040.dependent_{n}_name'] = f'Kid {n}'
            ctc = rng.chance(0.8)
            nctc += 1 if ctc else 0
            over[f'1040.dependent_{n}_ctc'] = 'yes' if ctc else 'no'
            over[f'1040.dependent_{n}_odc'] = 'yes'
            over[f'1040.dependent_{n}_relationship'] = 'child'
        over['1040_s8812.number_under_17'] = str(nctc)
    elif arch == 's1_additional_income':
        over['1040.schedule_1_additional_income'] = 'yes'
        status = rng.pick(all_statuses)
    elif arch == 's1_adjustments':
        over['1040.schedule_1_income_adjustments'] = 'yes'
        over['1040_s1.educator_expenses'] = str(rng.pick([0, 120, 250]))
        status = rng.pick(STATUSES)
    elif arch == 's3_credits':
        over['1040.need_schedule_3_part_i'] = 'yes'
        wages = rng.pick([88000, 120000])
    elif arch == 'qbi_dividends':
        over['1040.number_1099-div'] = '1'
        over['1099-div:0.payer'] = 'REIT Fund'
        over['1099-div:0.box_1a'] = str(rng.pick([400, 900.5]))
        over['1099-div:0.box_1b'] = '100'
        over['1099-div:0.box_5'] = str(rng.pick([50, 300]))
    elif arch == 'foreign_tax':
        status = rng.pick(all_statuses)
        over['1040.number_1099-int'] = '1'
        over['1099-int:0.payer'] = 'Intl Bank'
        over['1099-int:0.box_1'] = '700'
        over['1099-int:0.box_6'] = str(rng.pick([20, 150.5, 290]))
    elif arch == 'nc_itemizer':
        forms = ['1040', 'nc_d-400']
        status = rng.pick(['Single', 'MarriedFilingJointly'])
        wages = rng.pick([150000, 185000])
        over['1040.itemize'] = 'yes'
        over['1040.number_1098'] = '1'
        over['1098:0.box_1'] = str(rng.pick([14000, 22000.5]))
        over['nc_d-400.try_itemizing'] = 'yes'
        over['1040_sa.state_local_real_estate_taxes'] = str(rng.pick([3000, 6500]))
        over['1040_sa.charitable_cash_check'] = str(rng.pick([0, 1200, 5000]))
    elif arch == 'joint_hsa_spouse':
        status = 'MarriedFilingJointly'
        n_w2 = 2
        over['1040.schedule_1_income_adjustments'] = 'yes'
        over['1040_s1.hsa_contribution_you'] = 'yes'
        over['1040_s1.hsa_contribution_spouse'] = rng.pick(['yes', 'no'])
        for who in ('you', 'spouse'):
            over[f'8889:{who}.hsa_contributions'] = str(rng.pick([500, 1500]))
    elif arch == 'hsa':
        over['1040.schedule_1_income_adjustments'] = 'yes'
        over['1040_s1.hsa_contribution_you'] = 'yes'
        over['8889:you.hsa_contributions'] = str(rng.pick([500, 1500, 3000, 0, '']))
        over['8889:you.employer_contribution'] = str(rng.pick([0, 0, 1200]))
        over['8889:you.hsa_full_year'] = 'yes'
        over['8889:you.age_under_55'] = 'yes'
        over['8889:you.hdhp_coverage'] = 'self'
    elif arch == 'ira_8606':
        over['1040.number_1099-r'] = '1'
        over['1099-r:0.box_1'] = str(rng.pick([5000, 6500]))
        over['1099-r:0.box_2a'] = str(rng.pick([0, 5000]))
        over['1099-r:0.box_7_ira_sep_simple'] = 'yes'
        over['1099-r:0.belongs_to'] = 'taxpayer'
        over['1040.ira_exception2_you'] = rng.pick(['yes', 'yes', 'no'])
        if rng.chance(0.35):
            # a second, spouse-owned IRA distribution on a joint return
            status = 'MarriedFilingJointly'
            over['1040.number_1099-r'] = '2'
            over['1099-r:1.box_1'] = str(rng.pick([3000, 4500]))
            over['1099-r:1.box_2a'] = '0'
            over['1099-r:1.box_7_ira_sep_simple'] = 'yes'
            over['1099-r:1.belongs_to'] = 'spouse'
            over['1099-r:1.payer'] = 'Spouse IRA custodian'
        if rng.chance(0.6):
            # Form 8606 part I with a basis ratio that does not terminate within 5 decimals
            over['8606:you.part_1_needed'] = 'yes'
            over['8606:you.distribution_or_roth_conversion'] = 'yes'
            over['8606:you.nondeductible_contributions'] = str(rng.pick([1000, 2000, 3500]))
            over['8606:you.traditional_basis'] = str(rng.pick([0, 1000, 4000]))
            over['8606:you.year_end_value_non_roth'] = str(rng.pick([7000, 11000, 23000]))
            over[f'8606:you.distributions_{year}'] = over['1099-r:0.box_1']
    elif arch == 'high_earner':
        wages = rng.pick([230000, 310000.75])
        status = rng.pick(['Single', 'MarriedFilingJointly'])
    elif arch == 'nc_resident':
        forms = ['1040', 'nc_d-400']
        status = rng.pick(['Single', 'MarriedFilingJointly'])
        if rng.chance(0.5):
            # Schedule S takes part
            over['nc_d-400.deductions_from_agi'] = 'yes'
            over['nc_d-400_ss.interest_us_obligations'] = str(rng.pick([0, 120.5, 900]))
        if rng.chance(0.3):
            over['nc_d-400.additions_to_agi'] = 'yes'
            over['nc_d-400_ss.interest_income_not_nc'] = str(rng.pick([0, 75]))
        over['1040.number_1098'] = '1'
        over['1098:0.box_1'] = str(rng.pick([4000, 9000.5]))
    elif arch == 'low_income_investor':
        # taxable income of a few hundred to a few thousand dollars (the narrow rows at the top of the tax table); enough
        # investment income that the earned income credit is out of the question (it is not implemented)
        wages = 1500
        t = 105 + 5 * rng.randrange(570) + rng.pick([0, 0, 0.5])
        divs = rng.pick([0, 0, 300, 450.5])
        over['1040.number_1099-int'] = '1'
        over['1099-int:0.payer'] = 'Savings Bank'
        over['1099-int:0.box_1'] = str(round(STD_SINGLE.get(year, 13850.0) + t - wages - divs, 2))
        if divs:
            over['1040.number_1099-div'] = '1'
            over['1099-div:0.payer'] = 'Index Fund'
            over['1099-div:0.box_1a'] = str(divs)
            over['1099-div:0.box_1b'] = str(rng.pick([divs, 100]))
    elif arch == 'retiree_1099r':
        nr = rng.pick([1, 2, 2, 3])
        over['1040.number_1099-r'] = str(nr)
        for k in range(nr):
            amt = rng.pick([24000, 18000, 6400.5])
            over[f'1099-r:{k}.box_1'] = str(amt)
            over[f'1099-r:{k}.box_2a'] = str(amt if rng.chance(0.7) else amt - 500)
            over[f'1099-r:{k}.box_7_ira_sep_simple'] = 'no'
            over[f'1099-r:{k}.box_4'] = str(round(amt * 0.1, 2))
            over[f'1099-r:{k}.payer'] = f'Pension {k}'
        wages = rng.pick([60000, 70000])

    if year == 2021 and 50000 <= wages < 100000:
        # the 2021 tax table has no rows for taxable income 48,000-66,000 (an abort that is C07's business, not ours):
        # keep most 2021 personas out of that hole so that they reach solved returns
        wages = rng.pick([40000, 101000.5, 120000])
    over['1040.filing_status'] = status
    over['1040.number_w-2'] = str(n_w2)
    for n in range(n_w2):
        who = 'spouse' if (n == 1 and status == 'MarriedFilingJointly') else 'taxpayer'
        w2(n, wages if n == 0 else rng.pick([30000, 52000.4]), who)
    over['1040.first_name'] = rng.pick(FIRST)
    over['1040.last_name'] = rng.pick(LAST)
    if rng.chance(0.3):
        over['1040.estimated_tax_payments'] = str(rng.pick([500, 2000.5]))
    return {'year': year, 'archetype': arch, 'seed': seed, 'over': over, 'forms': forms}


def default_text(q, spec, persona):
    """archetype-independent default answer, function of the name only"""
    form, inst, base = split_name(q)
    t = spec['type']
    h = core.h64('default', persona['seed'], q)
    if t == 'bool':
        # inputs whose *negative* answer is the unsupported one
        if base in ('hsa_full_year', 'age_under_55', 'full_year_resident', 'lived_in_nc_entire_year',
                    'ira_exception1_you_total', 'ira_exception1_spouse_total', 'ira_exception3_you_total',
                    'ira_exception3_spouse_total', 'checking_account', 'nc_residents', 'no_consumer_use_tax', 'filling_8283'):
            return 'yes'
        return 'no'
    if t == 'int':
        return '0'
    if t == 'float':
        return '0'
    if t == 'str':
        return ['Text', 'Acme Corp', '12 Main St', 'n/a'][h % 4] if base not in ('zip',) else '27601'
    if t in ('enum', 'enum_empty'):
        m = spec['members']
        if 'Single' in m:
            return 'Single'
        if 'NC' in m:
            return 'NC'
        if 'taxpayer' in m:
            return 'taxpayer'
        if t == 'enum_empty':
            return ''
        return m[0]
    if t == 'ssn':
        return ['123-45-6789', '987654321', '111-22-3333'][h % 3]
    if t == 'regex':
        rx = spec['regex']
        for cand in ('011000015', '12345678', 'AB-123', 'NC', '27601', '9195551234', 'abc'):
            if re.match(rx, cand):
                return cand
        return ''
    return ''


class Persona(object):
    def __init__(self, pdict):
        self.p = pdict
        self.cat = catalogue(pdict['year'])
        self.over = pdict['over']

    def spec(self, q):
        form, inst, base = split_name(q)
        f = self.cat.get(form)
        if f is None:
            return None
        return f['inputs'].get(base)

    def input_obj(self, q):
        form, inst, base = split_name(q)
        f = self.cat.get(form)
        return None if f is None else f['input_objs'].get(base)

    def invalid_texts(self, q):
        """texts the input's own valid() rejects (so a legitimately changed grammar is never an alarm)"""
        from .gen import INVALID
        spec, obj = self.spec(q), self.input_obj(q)
        if spec is None or obj is None:
            return []
        cands = list(INVALID.get(spec['type'], [])) + ['?!', 'not valid']
        out = []
        for t in cands:
            try:
                if not obj.valid(t):
                    out.append(t)
            except Exception:
                pass
        return out

    def text(self, q):
        if q in self.over:
            return self.over[q]
        s = self.spec(q)
        if s is None:
            raise core.HarnessError(f'persona asked for unknown input {q}')
        return default_text(q, s, self.p)


# ----------------------------------------------------------------------------------
# running a session at solver level
# ----------------------------------------------------------------------------------
class ShippedRun(simrun.RealRun):
    pass


def execute(pdict, file_names=(), sched=(None, 0), prompt=True, refuse_at=None, layout=None, budget=40000,
            cpu_s=30.0, requested=None, overrides=None, store=None):
    """One session of the simulated taxpayer against the real forms of pdict['year'].
    file_names: inputs pre-supplied in the file (texts from the persona)."""
    persona = Persona(pdict)
    if overrides:
        persona.over = dict(persona.over, **overrides)
    year = pdict['year']
    from . import gen
    if store is None:
        items = [(n, persona.text(n)) for n in file_names]
        path = os.path.join(simrun.scratch_dir(), 'ship_in.ini')
        with open(path, 'w', newline='') as f:
            f.write(gen.file_text(items, layout=layout))
        store = hb_inputs.InputStore(path)
    else:
        file_names = sorted(f'{sec}.{k}' for sec, k in simrun.config_items(store.config))
    m = mon.Monitor(supplied=file_names)
    rec = seams.Recorder(budget=budget, sched_seed=sched[0], period=sched[1], monitor=m)

    def answer(name, inp, k):
        if refuse_at is not None and k >= refuse_at:
            return None
        return persona.text(name)

    run = ShippedRun()
    run.rec, run.monitor = rec, m
    pf = seams.solver_prompt(rec, answer) if prompt else None
    req = list(requested if requested is not None else pdict['forms'])
    run.requested, run.field_names = req, []
    run.prompting = bool(prompt)
    with seams.installed(rec), core.cpu_alarm(cpu_s):
        s = hb_solver.Solver(store, hb_forms.available_forms[year], prompt=pf)
        try:
            ok = s.solve(list(req))
        except (core.RunTimeout, core.BudgetExceeded) as e:
            e.monitor, e.rec = m, rec          # what the session did before it was cut off
            raise
        except Exception as e:
            run.outcome = 'abort'
            run.exc = (type(e).__name__, str(e)[:300])
        else:
            run.outcome = 'solved' if ok else 'failed'
            run.solution = simrun.solution_dict(s.solution())
            run.unimpl = list(s.unimplemented_fields())
            run.unmet_in = {k: list(v) for k, v in s.unmet_input_dependencies().items()}
            run.unmet_f = {k: list(v) for k, v in s.unmet_field_dependencies().items()}
    if run.outcome != 'abort':
        m.finish()
    run.supplied = sorted(set(file_names) | set(m.answered))
    run.config_items = simrun.config_items(store.config)
    run.input_texts = {f'{sec}.{k}': v for (sec, k), v in run.config_items.items()}
    # what the user typed at a prompt is what the user declared, whatever the store made of it
    run.input_texts.update({n: t for n, t in m.answered.items() if isinstance(t, str)})
    run.store = store
    return run


# ----------------------------------------------------------------------------------
# R1 on the shipped forms: the forms' own value() functions against model-owned mappings
# ----------------------------------------------------------------------------------
from . import refmodel                        # noqa: E402
from collections.abc import Mapping          # noqa: E402


class _StubSolver(object):
    """what Field.form(name) reaches through Form.solver().forms: participating forms only"""

    def __init__(self, model):
        self.model = model

    @property
    def forms(self):
        m = self.model
        return {fi: m.form_obj(fi) for fi in m.res.forms}


class _Acc(Mapping):
    """what a line function sees as `i` / `v`: qualifies local names with the form instance"""

    def __init__(self, model, forminst, kind):
        self.model, self.forminst, self.kind = model, forminst, kind

    def __getitem__(self, key):
        q = key if '.' in key else f'{self.forminst}.{key}'
        if self.kind == 'i':
            return self.model.read_input(q)
        return self.model.read_line(q)

    def __iter__(self):
        return iter(())

    def __len__(self):
        return 0


class R1Shipped(object):
    def __init__(self, year, input_texts, requested):
        self.year = year
        self.cat = catalogue(year)
        self.texts = input_texts       # FINAL supplied inputs {qualified name: text}
        self.requested = list(requested)
        self.res = refmodel.R1Result()
        self.vals = {}
        self.objs = {}                 # form instance -> Form object (model's own instantiation)

    def form_obj(self, forminst):
        o = self.objs.get(forminst)
        if o is None:
            base, inst = refmodel.split_inst(forminst)
            o = self.cat[base]['cls'](solver=_StubSolver(self), instance=inst)
            self.objs[forminst] = o
            o._r1_inputs = {i.base_name(): i for i in o.inputs()}
            o._r1_fields = {f.base_name(): f for f in o.fields()}
        return o

    def read_input(self, q):
        if q.count('.') != 1:
            raise refmodel.Abort('bad-name', q)
        forminst, x = q.split('.')
        base, _ = refmodel.split_inst(forminst)
        if forminst.count(':') > 1:
            raise refmodel.Abort('bad-name', q)
        if base not in self.cat:
            raise refmodel.Abort('unsupported', base)
        if x not in self.cat[base]['inputs']:
            raise refmodel.Abort('unknown-name', q)
        txt = self.texts.get(q)
        if txt is None:
            raise refmodel.Blocked('input', q)
        i = self.form_obj(forminst)._r1_inputs[x]
        if not i.valid(txt):
            raise refmodel.Abort('invalid-input', q)
        return i.value(txt)

    def participate(self, forminst):
        if forminst in self.res.forms:
            return
        base, _ = refmodel.split_inst(forminst)
        if forminst.count(':') > 1:
            raise refmodel.Abort('bad-name', forminst)
        if base not in self.cat:
            raise refmodel.Abort('unsupported', base)
        self.res.forms.add(forminst)
        for n in self.cat[base]['required']:
            self.res.demanded.add(f'{forminst}.{n}')

    def read_line(self, q):
        if q in self.vals:
            return self.vals[q]
        if q.count('.') != 1:
            raise refmodel.Abort('bad-name', q)
        forminst, y = q.split('.')
        base, _ = refmodel.split_inst(forminst)
        if base not in self.cat:
            raise refmodel.Abort('unsupported', base)
        self.participate(forminst)
        if y not in self.cat[base]['field_types']:
            raise refmodel.Abort('unknown-name', q)
        self.res.demanded.add(q)
        raise refmodel.Blocked('line', q)

    def eval_line(self, q):
        forminst, y = q.split('.')
        f = self.form_obj(forminst)._r1_fields[y]
        return f.value(_Acc(self, forminst, 'i'), _Acc(self, forminst, 'v'))

    def field(self, q):
        forminst, y = q.split('.')
        return self.form_obj(forminst)._r1_fields.get(y)

    def run(self):
        res = self.res
        try:
            for rn in self.requested:
                self.participate(rn)
        except refmodel.Abort as a:
            res.aborts['<request>'] = (a.kind, a.detail)
            res.verdict = 'abort'
            return res
        state = {}
        changed = True
        while changed:
            changed = False
            for q in sorted(res.demanded):
                if q in self.vals:
                    continue
                st = state.get(q)
                if st is not None:
                    if st[0] != 'blocked' or st[1] == 'input' or st[2] not in self.vals:
                        continue
                before = len(res.demanded) + len(res.forms)
                res.evals += 1
                try:
                    v = self.eval_line(q)
                except refmodel.Blocked as b:
                    new = ('blocked', b.kind, b.name)
                    if state.get(q) != new:
                        changed = True
                    state[q] = new
                except hb_fields.FieldNotImplemented:
                    state[q] = ('unimpl',)
                    res.unimpl.add(q)
                    changed = True
                except refmodel.Abort as a:
                    state[q] = ('abort',)
                    res.aborts[q] = (a.kind, a.detail)
                    changed = True
                except Exception as e:
                    state[q] = ('abort',)
                    res.aborts[q] = ('line-error', type(e).__name__)
                    changed = True
                else:
                    self.vals[q] = v
                    changed = True
                if len(res.demanded) + len(res.forms) != before:
                    changed = True
        for q, st in state.items():
            if q in self.vals or st[0] != 'blocked':
                continue
            if st[1] == 'input':
                res.missing.setdefault(st[2], set()).add(q)
            else:
                res.blocked.setdefault(st[2], set()).add(q)
        res.values = {q: core.norm(v) for q, v in self.vals.items()}
        res.raw_values = dict(self.vals)
        if res.aborts:
            res.verdict = 'abort'
        elif res.unimpl or res.missing or res.blocked:
            res.verdict = 'failed'
        else:
            res.verdict = 'solved'
        return res


def model_for(pdict, run):
    core.reset_code_state()      # the re-derivation shares nothing the forms may remember from the run
    m = R1Shipped(pdict['year'], run.input_texts, run.requested)
    r = m.run()
    r.model = m
    return r


def closure_from_history(pdict, run):
    cat = catalogue(pdict['year'])
    part = set(run.requested)
    lines = set()
    for e in run.rec.events:
        if e[0] == 'RL':
            lines.add(e[2])
            part.add(e[2].split('.')[0])
    out = set(lines)
    for fi in part:
        base = fi.split(':')[0]
        if base not in cat:
            return None
        for n in cat[base]['required']:
            out.add(f'{fi}.{n}')
    return out


def input_read_findings(pdict, events, texts):
    """Every value a line received for an input must be what the text supplied under THAT name denotes (judged after the
    run, on fresh form objects, so that nothing is created while the solver works).  texts: name -> supplied text."""
    F = simrun.F
    cat = catalogue(pdict['year'])
    objs = {}
    out = []
    seen = set()
    for e in events:
        if e[0] != 'RI' or e[3][0] != 'ok' or e[2] in seen:
            continue
        q = e[2]
        seen.add(q)
        txt = texts(q) if callable(texts) else texts.get(q)
        if txt is None:
            continue
        form, inst, base = split_name(q)
        if form not in cat or base not in cat[form]['inputs']:
            continue
        fi = q.split('.')[0]
        if fi not in objs:
            try:
                objs[fi] = {i.base_name(): i for i in cat[form]['cls'](instance=inst).inputs()}
            except Exception:
                objs[fi] = {}
        i = objs[fi].get(base)
        try:
            if i is None or not i.valid(txt):
                continue
            exp = core.norm(i.value(txt))
        except Exception:
            continue
        if exp != e[3][1]:
            out.append(F('C03', 'C03.input', 'other-inputs-value',
                         f'{e[1]} read input {q} and received {e[3][1]}, but the text supplied for {q} is {txt!r} ({exp})'))
            if len(out) >= 3:
                break
    return out


def judge(pdict, run, r1):
    """shipped-world oracles: common ones + value re-derivation + read-history closure + types"""
    F = simrun.F
    out = simrun.judge_common(run, r1)
    out += input_read_findings(pdict, run.rec.events, run.input_texts)
    cat = catalogue(pdict['year'])
    m = run.monitor
    if run.outcome in ('solved', 'failed'):
        flat = simrun.flat_solution(run)
        for q, txt in sorted(flat.items()):
            if q not in r1.values:
                out.append(F('C03', 'C03.model', 'extra-value', f'{q} = {txt!r} in the solution, but re-derivation gives no value'))
                continue
            f = r1.model.field(q)
            exp = f.to_string(r1.raw_values[q])
            if exp != txt:
                out.append(F('C03', 'C03.model', 'wrong-value', f'{q} = {txt!r} in the solution, re-derivation from the final inputs gives {exp!r}'))
            st = m.stored.get(q)
            if st is not None and st != r1.values[q]:
                prop = 'C12' if st[0] != r1.values[q][0] else 'C03'
                out.append(F(prop, f'{prop}.stored', 'stored-differs', f'{q}: evaluation returned {st}, re-derivation gives {r1.values[q]}'))
    if run.outcome == 'solved' and r1.verdict == 'solved':
        hist = closure_from_history(pdict, run)
        flat = simrun.flat_solution(run)
        if hist is not None and set(flat) != hist:
            out.append(F('C04', 'C04.history', 'closure-history',
                         f'solution lines differ from the closure of the recorded read history: extra '
                         f'{sorted(set(flat) - hist)[:6]} missing {sorted(hist - set(flat))[:6]}'))
    for q, st in sorted(m.stored.items()):
        form, inst, base = split_name(q)
        if form not in cat or base not in cat[form]['field_types']:
            continue
        t = cat[form]['field_types'][base]
        line = {'type': t, 'places': cat[form]['places'].get(base) if cat[form]['places'].get(base) is not None else 2}
        if t == 'enum':
            if st[0] not in ('n', 'e'):
                out.append(F('C12', 'C12.type', 'bad-stored-type', f'{q}: declared enum, value {st}'))
            continue
        if t.startswith('other'):
            continue
        bad = simrun.check_typed(line, st)
        if bad:
            out.append(F('C12', 'C12.type', 'bad-stored-type', f'{q}: {bad}'))
    return out
