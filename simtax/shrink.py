"""Greedy minimisation of synthetic cases (DESIGN.md section 3).  Keeps a candidate only if
the same oracle of the same property still fails.  Bounded effort; deterministic."""
import copy

from . import core
from . import synth

TYPED_CONST = {'float': ['const', 0], 'int': ['const', 0], 'bool': ['const', False], 'str': ['const', 'c']}


def _const_for(line):
    if line['type'] == 'enum':
        return ['none']
    return TYPED_CONST[line['type']]


def _subexprs(e, path=()):
    """yield (path, subexpr) for every nested list expression"""
    yield path, e
    for k, x in enumerate(e):
        if isinstance(x, list) and x and isinstance(x[0], str):
            yield from _subexprs(x, path + (k,))


def _replace(e, path, new):
    if not path:
        return new
    e = list(e)
    e[path[0]] = _replace(e[path[0]], path[1:], new)
    return e


def shrink_case(case, fails, max_tries=400):
    """fails(case) -> bool (same violation still present).  Returns a smaller failing case."""
    tries = [0]

    def ok(c):
        if tries[0] >= max_tries:
            return False
        tries[0] += 1
        try:
            return bool(fails(c))
        except (core.HarnessError, core.RunTimeout, core.BudgetExceeded):
            return False
        except Exception:
            return False

    cur = copy.deepcopy(case)

    def attempt(mut):
        nonlocal cur
        c = copy.deepcopy(cur)
        try:
            r = mut(c)
        except Exception:
            return False
        if r is False:
            return False
        if ok(c):
            cur = c
            return True
        return False

    # 1. simpler session
    def natural(c):
        if c['sched'] == [None, 0]:
            return False
        c['sched'] = [None, 0]
    attempt(natural)

    def nolayout(c):
        if c.get('layout') is None:
            return False
        c['layout'] = None
    attempt(nolayout)

    def allfile(c):
        if not c['prompt'] and sorted(c['file']) == sorted(c['persona']):
            return False
        c['file'] = sorted(c['persona'])
        c['prompt'] = False
        c['refuse_at'] = None
    attempt(allfile)

    def norefuse(c):
        if c.get('refuse_at') is None:
            return False
        c['refuse_at'] = None
    attempt(norefuse)

    def nofieldnames(c):
        if not c['field_names']:
            return False
        c['field_names'] = []
    attempt(nofieldnames)
    for k in range(len(cur['requested']) - 1, -1, -1):
        def dropreq(c, k=k):
            if len(c['requested']) <= 1:
                return False
            del c['requested'][k]
        attempt(dropreq)

    # 2. smaller world: drop optional lines, required lines, then simplify expressions
    changed = True
    rounds = 0
    while changed and rounds < 4 and tries[0] < max_tries:
        changed = False
        rounds += 1
        for fi in range(len(cur['world']['forms']) - 1, -1, -1):
            def dropform(c, fi=fi):
                f = c['world']['forms'][fi]
                if any(r.split(':')[0] == f['name'] for r in c['requested']):
                    return False
                del c['world']['forms'][fi]
                for n in [n for n in c['persona'] if n.split('.')[0].split(':')[0] == f['name']]:
                    del c['persona'][n]
                c['file'] = [n for n in c['file'] if n in c['persona']]
            if attempt(dropform):
                changed = True
        for fi, f in enumerate(cur['world']['forms']):
            if f['kind'] != 'form':
                continue
            for grp in ('optional', 'required'):
                for li in range(len(cur['world']['forms'][fi][grp]) - 1, -1, -1):
                    def dropline(c, fi=fi, grp=grp, li=li):
                        del c['world']['forms'][fi][grp][li]
                    if attempt(dropline):
                        changed = True
        for fi, f in enumerate(cur['world']['forms']):
            if f['kind'] != 'form':
                continue
            for grp in ('required', 'optional'):
                for li, l in enumerate(cur['world']['forms'][fi][grp]):
                    def constline(c, fi=fi, grp=grp, li=li):
                        ln = c['world']['forms'][fi][grp][li]
                        k = _const_for(ln)
                        if ln['expr'] == k:
                            return False
                        ln['expr'] = k
                    if attempt(constline):
                        changed = True
                        continue
                    # try replacing sub-expressions by one of their children or a constant
                    progress = True
                    while progress and tries[0] < max_tries:
                        progress = False
                        expr = cur['world']['forms'][fi][grp][li]['expr']
                        for path, sub in list(_subexprs(expr)):
                            if not path:
                                cands = [x for x in sub[1:] if isinstance(x, list) and x and isinstance(x[0], str)]
                            else:
                                cands = [x for x in sub[1:] if isinstance(x, list) and x and isinstance(x[0], str)]
                                cands.append(['const', 0])
                            for cand in cands:
                                if cand == sub:
                                    continue

                                def sub_mut(c, fi=fi, grp=grp, li=li, path=path, cand=cand):
                                    ln = c['world']['forms'][fi][grp][li]
                                    ln['expr'] = _replace(ln['expr'], path, cand)
                                if attempt(sub_mut):
                                    progress = True
                                    changed = True
                                    break
                            if progress:
                                break
        # 3. drop inputs
        for fi, f in enumerate(cur['world']['forms']):
            for ii in range(len(f['inputs']) - 1, -1, -1):
                def dropinput(c, fi=fi, ii=ii):
                    fs = c['world']['forms'][fi]
                    if fs['kind'] == 'inputform' and len(fs['inputs']) <= 1:
                        return False
                    nm = fs['inputs'][ii]['name']
                    del fs['inputs'][ii]
                    for n in [n for n in c['persona'] if n.split('.')[0].split(':')[0] == fs['name'] and n.split('.')[1] == nm]:
                        del c['persona'][n]
                    c['file'] = [n for n in c['file'] if n in c['persona']]
                if attempt(dropinput):
                    changed = True
    # 4. drop persona entries of unused instances
    import json as _json
    for n in sorted(cur['persona']):
        def droppersona(c, n=n):
            # only values of copies of a form that nothing can ever ask about: the copy is neither requested nor referred to
            # anywhere (dropping the value of an input that may still be asked for would leave the scripted user without an
            # answer on a tree where the session gets that far - the replay must stay a valid case on the unchanged tree)
            finst = n.split('.')[0]
            if ':' not in finst:
                return False
            blob = _json.dumps([c['world'], c.get('requested'), c.get('field_names'), c.get('again')])
            if finst in blob:
                return False
            del c['persona'][n]
            c['file'] = [x for x in c['file'] if x != n]
        attempt(droppersona)
    cur['shrunk'] = {'tries': tries[0]}
    return cur
