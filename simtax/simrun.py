"""Drivers for the synthetic world: execute one explicit case against real habutax
(solver level or through habutax.main()), run R1 on the run's final inputs, and evaluate
the per-property oracles.  Every oracle returns a list of findings
{'property','oracle','key','msg'}; property modules select the ones they decide."""
import configparser
import contextlib
import io
import os
import sys

from . import core
from . import gen
from . import monitor as mon
from . import refmodel
from . import seams
from . import synth

hb = core.import_habutax()
from habutax import solver as hb_solver      # noqa: E402
from habutax import inputs as hb_inputs      # noqa: E402
from habutax import forms as hb_forms        # noqa: E402

_scratch = None


def scratch_dir():
    """per-process scratch directory on tmpfs (removed by the check launcher at exit)"""
    global _scratch
    base = os.environ.get('SIMTAX_SCRATCH') or ('/dev/shm' if os.path.isdir('/dev/shm') else '/tmp')
    d = os.path.join(base, f'simtax-{os.getppid()}-{os.getpid()}')
    if _scratch != d:
        os.makedirs(d, exist_ok=True)
        _scratch = d
    return d


def cleanup_scratch():
    import shutil
    base = os.environ.get('SIMTAX_SCRATCH') or ('/dev/shm' if os.path.isdir('/dev/shm') else '/tmp')
    me = os.getpid()
    for n in os.listdir(base):
        if n.startswith(f'simtax-{me}-') or n.startswith(f'simtax-{os.getppid()}-{me}'):
            shutil.rmtree(os.path.join(base, n), ignore_errors=True)


class RealRun(object):
    def __init__(self):
        self.outcome = None          # 'solved' | 'failed' | 'abort'
        self.exc = None              # (type name, text)
        self.solution = None         # {section: {key: text}}
        self.unimpl = None
        self.unmet_in = None
        self.unmet_f = None
        self.monitor = None
        self.rec = None
        self.supplied = None         # names supplied at the end (file + answers)
        self.config_items = None     # {(section,key): text} of the input store at the end
        self.stdout = None
        self.file_after = None

    def trace_digest(self):
        return core.digest_int([e[:2] for e in self.rec.events if e[0] in ('A', 'P')])


def solution_dict(cfg):
    out = {}
    for sec in cfg.sections():
        out[sec] = {k: _sol_get(cfg, sec, k) for k in cfg.options(sec)}
    return out


def _sol_get(cfg, sec, k):
    """a solution's text the way its users read it (solution[form][line], the filler): through the stock reader"""
    try:
        return cfg.get(sec, k)
    except configparser.InterpolationError:
        return cfg.get(sec, k, raw=True)


def config_items(cfg):
    return {(sec, k): cfg.get(sec, k, raw=True) for sec in cfg.sections() for k in cfg[sec]}


def write_input_file(case, path=None, names=None, layout='case'):
    path = path or os.path.join(scratch_dir(), 'in.ini')
    txt = gen.file_text(case, layout=(case.get('layout') if layout == 'case' else layout), names=names)
    with open(path, 'w', newline='') as f:
        f.write(txt)
    return path


def execute(case, budget=6000, cpu_s=3.0, sched=None, names=None, prompt=None, refuse_at='case',
            layout='case', requested=None, store=None, again=None, again_always=False, solver=None):
    """Run one case at solver level (real Solver, real InputStore on a real file).
    store: an existing InputStore to solve on again (histories on one store); its current content is what is supplied."""
    classes, enums = synth.build_classes(case['world'])
    if store is None:
        names = case['file'] if names is None else names
        path = write_input_file(case, names=names, layout=layout)
        store = hb_inputs.InputStore(path)
    else:
        names = sorted(f'{sec}.{k}' for sec, k in config_items(store.config))
    sched = case['sched'] if sched is None else sched
    lenient = [n for n, p_ in case['persona'].items() if 'default_text' in p_]
    m = mon.Monitor(supplied=names, dup_demand=case.get('dup', False), lenient=lenient)
    rec = seams.Recorder(budget=budget, sched_seed=sched[0], period=sched[1], monitor=m)
    prompt = case['prompt'] if prompt is None else prompt
    refuse = case['refuse_at'] if refuse_at == 'case' else refuse_at
    persona = case['persona']

    def answer(name, inp, k):
        if refuse is not None and k >= refuse:
            return None
        p = persona.get(name)
        if p is None:
            raise core.HarnessError(f'prompt for {name}, which the persona does not know')
        return p['text']

    run = RealRun()
    run.rec, run.monitor = rec, m
    pf = seams.solver_prompt(rec, answer) if prompt else None
    req = case['requested'] if requested is None else requested
    run.requested, run.field_names = list(req), list(case['field_names'])
    run.prompting = bool(prompt)
    with seams.installed(rec), core.cpu_alarm(cpu_s):
        s = solver if solver is not None else hb_solver.Solver(store, classes, prompt=pf)
        try:
            ok = s.solve(list(req), list(case['field_names']))
            if again is not None and (again_always or not ok):
                # the same Solver is asked again (nothing new, or one more form); between the calls the caller looks at
                # the solution, as a front end that shows progress would
                run.first_failed = not ok
                s.solution()
                ok2 = s.solve(list(again))
                ok = ok2 if not again_always else ok2
                run.requested = list(req) + [a for a in again if a not in req]
            # handing out the solution and the diagnostics is part of the solve as far as the properties are concerned
            sol = solution_dict(s.solution())
            diag = (list(s.unimplemented_fields()), {k: list(v) for k, v in s.unmet_input_dependencies().items()},
                    {k: list(v) for k, v in s.unmet_field_dependencies().items()})
        except Exception as e:
            run.outcome = 'abort'
            run.exc = (type(e).__name__, str(e)[:300])
        else:
            run.outcome = 'solved' if ok else 'failed'
            run.returned = ok
            run.solution = sol
            run.unimpl, run.unmet_in, run.unmet_f = diag
    if run.outcome != 'abort':
        m.finish()
    run.supplied = sorted(set(names) | set(m.answered))
    run.config_items = config_items(store.config)
    if case.get('defaults'):
        # with a [DEFAULT] section what is supplied at the end is what a reader of the final store sees
        run.supplied = sorted(n for n in (f'{sec}.{k}' for sec, k in run.config_items) if n in case['persona'])
    run.store = store
    return run


def execute_repair(case, seed):
    """History on ONE Solver: a solve that aborts on a value in the file that its input rejects; the caller repairs the value
    through the store and calls solve() on the same Solver again.  -> (run2 or None, case2)"""
    import copy
    rng = core.Rng(core.h64('repair', seed))
    c1 = copy.deepcopy(case)
    c1['prompt'] = False
    run1 = execute(c1)
    if run1.outcome != 'abort' or run1.exc is None or run1.exc[0] != 'InvalidInput' or not run1.rec.solvers:
        return None, c1
    case2 = copy.deepcopy(c1)
    for q, p_ in sorted(case2['persona'].items()):
        if p_['invalid'] and q in c1['file']:
            spec = input_spec_of(case['world'], q)
            txt, typed = gen.render_value(rng, spec)
            if '%' in txt or '\n' in txt:
                txt, typed = '1', typed
                continue
            try:
                run1.store[q] = txt
            except Exception:
                return None, c1
            case2['persona'][q] = {'text': txt, 'typed': typed, 'invalid': False}
    run2 = execute(case2, store=run1.store, solver=run1.rec.solvers[-1])
    return run2, case2


def execute_supply(case, seed):
    """History on ONE Solver: a solve without prompting that fails for want of inputs; the caller puts the inputs it named
    into the store and calls solve() on the same Solver again.  -> (run2 or None, case2)"""
    import copy
    rng = core.Rng(core.h64('supply', seed))
    c1 = copy.deepcopy(case)
    c1['prompt'] = False
    keep = rng.pick([0.3, 0.6, 0.8])
    names = [n for n in sorted(c1['persona']) if (rng.chance(keep) or c1['persona'][n]['invalid'] or '\n' in c1['persona'][n]['text']
                                                  or '%' in c1['persona'][n]['text']) and not c1['persona'][n].get('stray')]
    run1 = execute(c1, names=names)
    if run1.outcome != 'failed' or not run1.unmet_in or not run1.rec.solvers:
        return None, c1
    case2 = copy.deepcopy(c1)
    given = []
    for q in sorted(run1.unmet_in):
        p_ = case2['persona'].get(q)
        if p_ is None or p_['invalid'] or '%' in p_['text'] or '\n' in p_['text']:
            continue
        try:
            run1.store[q] = p_['text']
        except Exception:
            return None, c1
        given.append(q)
    if not given:
        return None, c1
    run2 = execute(case2, store=run1.store, solver=run1.rec.solvers[-1], prompt=False)
    run2.given = given
    return run2, case2


def execute_reuse(case, seed):
    """History on ONE InputStore: solve, edit the store through its mapping API (delete / re-set an input that was
    read), solve again with a fresh Solver.  Returns (run1, run2, case2, edits); case2 carries the edited persona."""
    import copy
    rng = core.Rng(core.h64('reuse', seed))
    run1 = execute(case)
    case2 = copy.deepcopy(case)
    read = sorted({e[2] for e in run1.rec.events if e[0] == 'RI' and e[3][0] == 'ok'})
    edits = []
    store = run1.store
    for q in read:
        if not rng.chance(0.5) or case['persona'][q]['invalid']:
            continue
        if rng.chance(0.5):
            try:
                del store[q]
            except Exception:
                continue
            edits.append(['del', q])
        else:
            spec = input_spec_of(case['world'], q)
            txt, typed = gen.render_value(rng, spec)
            try:
                store[q] = txt
            except Exception:
                continue
            case2['persona'][q] = {'text': txt, 'typed': typed, 'invalid': False}
            edits.append(['set', q, txt])
    if rng.chance(0.3):
        # the second Solver works with another version of the forms: an input that was read is plain text there
        cands = [q for q in read if (input_spec_of(case['world'], q) or {}).get('type') in ('bool', 'int', 'float')
                 and not (input_spec_of(case['world'], q) or {}).get('count') and not case2['persona'][q]['invalid']]
        if cands:
            q = rng.pick(cands)
            fname, iname = q.split('.')[0].split(':')[0], q.split('.')[1]
            for fs_ in case2['world']['forms']:
                if fs_['name'] == fname:
                    for i_ in fs_['inputs']:
                        if i_['name'] == iname:
                            for k_ in [k_ for k_ in i_ if k_ not in ('name',)]:
                                del i_[k_]
                            i_['type'] = 'str'
            for n_, p_ in case2['persona'].items():
                if n_.split('.')[0].split(':')[0] == fname and n_.split('.')[1] == iname:
                    p_['typed'] = ['s', p_['text'].strip()]     # any text is valid text
                    p_['invalid'] = False
            edits.append(['respec', q, 'str'])
    case2['prompt'] = rng.chance(0.5)
    case2['refuse_at'] = None if rng.chance(0.7) else 0
    run2 = execute(case2, store=store)
    return run1, run2, case2, edits


# ----------------------------------------------------------------------------------
# CLI level
# ----------------------------------------------------------------------------------
class ScriptedStdin(object):
    """habutax.input replacement.  script: per prompt index k (index of the *question*, not of
    the input() call): {'garble': [texts...], 'action': 'answer'|'ctrlc'|'eof'|'ctrlc_retry'}.
    The answer text comes from answer_fn(input name)."""

    def __init__(self, answer_fn, script):
        self.answer_fn = answer_fn
        self.script = script
        self.k = -1
        self.calls = 0
        self.cur = None
        self.pending = []
        self.log = []        # (k, name, what)

    MAX_CALLS = 20000

    def __call__(self, prompt_text=''):
        self.calls += 1
        if self.calls > self.MAX_CALLS:
            raise core.BudgetExceeded(f'input() called more than {self.MAX_CALLS} times in one session')
        if 'Invalid input, try again' not in prompt_text:
            self.k += 1
            name = None
            for line in prompt_text.split('\n'):
                if line.startswith('----[ ') and ' ]----' in line:
                    name = line[len('----[ '):line.index(' ]----')]
            if name is None:
                raise core.HarnessError(f'cannot find the input name in prompt text {prompt_text[:80]!r}')
            self.cur = name
            step = self.script(self.k, name)
            self.pending = list(step.get('garble', []))
            self.action = step.get('action', 'answer')
        else:
            if self.cur is None:
                raise core.HarnessError('retry prompt before any question')
        name = self.cur
        if self.action == 'ctrlc' and 'Invalid input' not in prompt_text:
            self.log.append((self.k, name, 'ctrlc'))
            raise KeyboardInterrupt()
        if self.action == 'eof' and 'Invalid input' not in prompt_text:
            self.log.append((self.k, name, 'eof'))
            raise EOFError()
        if self.pending:
            t = self.pending.pop(0)
            self.log.append((self.k, name, 'garble'))
            return t
        if self.action == 'ctrlc_retry':
            self.log.append((self.k, name, 'ctrlc'))
            raise KeyboardInterrupt()
        if self.action == 'eof_retry':
            self.log.append((self.k, name, 'eof'))
            raise EOFError()
        t = self.answer_fn(name)
        self.log.append((self.k, name, 'answer'))
        return t


def run_cli(argv, stdin=None, rec=None, fake_subprocess=None, year_forms=None, cpu_s=30.0):
    """Call habutax.main() in-process with argv; returns (exit kind, exception or None, stdout).
    year_forms: {year: [classes]} registered in forms.available_forms for the call."""
    rec = rec or seams.Recorder()
    out = io.StringIO()
    saved_argv = sys.argv
    saved_years = {}
    exc = None
    kind = 'return'
    try:
        if year_forms:
            for y, cl in year_forms.items():
                saved_years[y] = hb_forms.available_forms.get(y, None)
                hb_forms.available_forms[y] = cl
        sys.argv = ['habutax'] + list(argv)
        with seams.installed(rec, stdin=stdin, fake_subprocess=fake_subprocess), \
                contextlib.redirect_stdout(out), contextlib.redirect_stderr(out), core.cpu_alarm(cpu_s):
            try:
                hb.main()
            except SystemExit as e:
                kind, exc = 'exit', e
            except KeyboardInterrupt as e:
                kind, exc = 'interrupt', e
            except Exception as e:
                kind, exc = 'exception', e
    finally:
        sys.argv = saved_argv
        for y, old in saved_years.items():
            if old is None:
                hb_forms.available_forms.pop(y, None)
            else:
                hb_forms.available_forms[y] = old
    return kind, exc, out.getvalue()


# ----------------------------------------------------------------------------------
# R1 for a run, and the oracles
# ----------------------------------------------------------------------------------
def model_for(case, run):
    inputs = refmodel.synth_final_inputs(case, run.supplied, run)
    return refmodel.R1Synth(case['world'], inputs, run.requested, run.field_names).run()


def line_spec(world, q):
    forminst, y = q.split('.')
    base = forminst.split(':')[0]
    for f in world['forms']:
        if f['name'] == base:
            req, opt = synth.lines_of(f)
            for l in req + opt:
                if l['name'] == y:
                    return l
    return None


def expected_text(line, nv):
    """the model's own rendering of a value in a solution file"""
    k = nv[0]
    t = line['type']
    if t == 'float':
        places = 2 if line.get('raw') else line.get('places', 2)
        return f'{float(nv[1]):.{places}f}'
    if t == 'int':
        return str(nv[1])
    if t == 'bool':
        return 'True' if nv[1] else 'False'
    if t == 'str':
        return nv[1]
    if t == 'enum':
        return '' if k == 'n' else nv[2]
    raise core.HarnessError(t)


def F(prop, oracle, key, msg):
    return {'property': prop, 'oracle': oracle, 'key': key, 'msg': msg}


def flat_solution(run):
    return {f'{sec}.{k}': t for sec, kv in (run.solution or {}).items() for k, t in kv.items()}


def judge(case, run, r1):
    """All synthetic-world oracles for one run.  Returns list of findings."""
    return judge_common(run, r1) + judge_synth(case, run, r1)


def judge_common(run, r1):
    """Oracles that need only the run and the model's result (both worlds)."""
    out = []
    m = run.monitor
    returned = run.outcome in ('solved', 'failed')

    # ---- monitor invariants ----
    for code, msg in m.violations:
        prop = {'H1': 'C03', 'H2': 'C03', 'H3a': 'C13', 'H3b': 'C13', 'H3c': 'C13', 'H3d': 'C13', 'H3e': 'C13', 'H4': 'C06', 'H5': 'C06', 'H5b': 'C06', 'H5n': 'C06',
                'H5c': 'C06', 'H6': 'C11', 'T0': 'C06', 'T1': 'C06', 'T2': 'C06'}[code]
        out.append(F(prop, code, code, msg))

    # ---- C01 ----
    if run.outcome == 'solved' and r1.verdict != 'solved':
        out.append(F('C01', 'C01.a', 'silent-success',
                     f'solve() returned True but the reference model says {r1.verdict}: {r1.summary()}'))
    if returned and r1.verdict == 'abort':
        out.append(F('C01', 'C01.c', 'returned-instead-of-abort',
                     f'solve() returned {run.outcome} but every execution must abort: {r1.summary()["aborts"]}'))
    if run.outcome == 'failed' and r1.verdict == 'failed':
        if not set(r1.unimpl) <= set(run.unimpl):
            out.append(F('C01', 'C01.b', 'unimpl-not-named',
                         f'unimplemented lines {sorted(set(r1.unimpl) - set(run.unimpl))} not reported'))
        if not set(r1.missing) <= set(run.unmet_in):
            out.append(F('C01', 'C01.b', 'missing-not-named',
                         f'missing inputs {sorted(set(r1.missing) - set(run.unmet_in))} not reported'))
        named = set()
        for d in (run.unmet_in, run.unmet_f):
            for v in d.values():
                named |= set(v)
        need = set()
        for v in list(r1.missing.values()) + list(r1.blocked.values()):
            need |= v
        if not need <= named:
            out.append(F('C01', 'C01.b', 'blocked-not-named',
                         f'blocked lines {sorted(need - named)} not named in the diagnostics'))

    if returned and getattr(run, 'prompting', False) and not m.refused and run.unmet_in:
        out.append(F('C05', 'P1', 'inputs-left-unasked',
                     f'the user was answering every question and never refused, yet the run ended with inputs '
                     f'{sorted(run.unmet_in)[:5]} reported as not supplied (never asked for)'))
    if returned:
        flat = flat_solution(run)
        # ---- the solution handed out holds exactly the lines whose evaluation completed ----
        done = set(m.stored)
        if set(flat) != done:
            out.append(F('C14', 'C14.solution', 'solution-vs-computed',
                         f'solution() differs from the lines that were computed: missing {sorted(done - set(flat))[:5]} '
                         f'extra {sorted(set(flat) - done)[:5]}'))
        # ---- C01: success is only reported when every demanded line has a value ----
        if run.outcome == 'solved' and r1.verdict == 'solved':
            unvalued = sorted(set(r1.demanded) - set(flat))
            if unvalued:
                out.append(F('C01', 'C01.a', 'demanded-line-without-value',
                             f'solve() returned True but the demanded lines {unvalued[:6]} have no value'))
        # ---- C06: no lost waiter => everything the model can compute was computed ----
        lost = sorted(set(r1.values) - set(flat))
        if lost and r1.verdict != 'abort':
            out.append(F('C06', 'C06.lost', 'computable-line-without-value',
                         f'lines {lost[:6]} are computable from the final inputs but have no value'))
        # ---- C05.model: full agreement with the model ----
        if r1.verdict != 'abort':
            if run.outcome != r1.verdict:
                out.append(F('C05', 'C05.model', 'verdict', f'verdict {run.outcome}, model {r1.verdict}'))
            if set(run.unimpl) != set(r1.unimpl):
                out.append(F('C05', 'C05.model', 'unimpl', f'unimplemented {sorted(set(run.unimpl))} model {sorted(r1.unimpl)}'))
            ui = {k: set(v) for k, v in run.unmet_in.items()}
            if ui != {k: set(v) for k, v in r1.missing.items()}:
                out.append(F('C05', 'C05.model', 'unmet-inputs', f'unmet inputs {run.unmet_in} model {r1.summary()["missing"]}'))
            uf = {k: set(v) for k, v in run.unmet_f.items()}
            if uf != {k: set(v) for k, v in r1.blocked.items()}:
                out.append(F('C05', 'C05.model', 'unmet-fields', f'unmet fields {run.unmet_f} model {r1.summary()["blocked"]}'))
        # ---- C04.model ----
        if run.outcome == 'solved' and r1.verdict != 'abort' and set(flat) != set(r1.demanded):
            out.append(F('C04', 'C04.model', 'closure',
                         f'solution lines differ from the demand closure: extra {sorted(set(flat) - r1.demanded)[:6]} '
                         f'missing {sorted(r1.demanded - set(flat))[:6]}'))
    return out


def judge_synth(case, run, r1):
    out = []
    world = case['world']
    m = run.monitor
    returned = run.outcome in ('solved', 'failed')
    # ---- C03 / C12: values ----
    if returned:
        flat = flat_solution(run)
        for q, txt in sorted(flat.items()):
            nv = r1.values.get(q)
            if nv is None:
                out.append(F('C03', 'C03.model', 'extra-value',
                             f'{q} = {txt!r} in the solution, but re-derivation gives no value'))
                continue
            l = line_spec(world, q)
            if l is None:
                out.append(F('C04', 'C04.unknown', 'unknown-line', f'{q} in solution is not a declared line'))
                continue
            exp = expected_text(l, nv)
            if exp != txt:
                out.append(F('C03', 'C03.model', 'wrong-value',
                             f'{q} = {txt!r} in the solution, re-derivation gives {exp!r}'))
            st = m.stored.get(q)
            if st is not None and st != nv:
                prop = 'C12' if st[0] != nv[0] else 'C03'
                out.append(F(prop, f'{prop}.stored', 'stored-differs',
                             f'{q}: evaluation returned {st}, re-derivation gives {nv}'))
    # ---- C04: closure (whenever success is reported) ----
    if run.outcome == 'solved' and r1.verdict != 'abort':
        flat = flat_solution(run)
        hist = closure_from_history(case, run)
        if hist is not None and set(flat) != hist:
            out.append(F('C04', 'C04.history', 'closure-history',
                         f'solution lines differ from the closure of the recorded read history: extra '
                         f'{sorted(set(flat) - hist)[:6]} missing {sorted(hist - set(flat))[:6]}'))

    # ---- C12: type / rounding / blank convention of everything value() returned ----
    for q, st in sorted(m.stored.items()):
        l = line_spec(world, q)
        if l is None:
            continue
        bad = check_typed(l, st)
        if bad:
            out.append(F('C12', 'C12.type', 'bad-stored-type', f'{q}: {bad}'))
    if r1.verdict == 'abort' and returned and {k for k, _ in r1.aborts.values()} == {'type-error'}:
        out.append(F('C12', 'C12.reject', 'not-rejected',
                     f'{sorted(r1.aborts)} produce a value of another type than declared; that must be rejected with an error '
                     f'naming the line, but the solve returned ({run.outcome}) - the value was stored or coerced'))
    if r1.verdict == 'abort' and run.outcome == 'abort':
        kinds = {k for k, _ in r1.aborts.values()}
        if kinds == {'type-error'}:
            if run.exc[0] != 'TypeError':
                out.append(F('C12', 'C12.reject', 'wrong-exception',
                             f'a wrong-typed result must be rejected with TypeError, got {run.exc}'))
            elif not any(q in run.exc[1] for q in r1.aborts):
                out.append(F('C12', 'C12.reject', 'unnamed-line',
                             f'type error does not name the line: {run.exc[1]!r} (candidates {sorted(r1.aborts)})'))
    return out


def check_typed(line, nv):
    t = line['type']
    k = nv[0]
    if t == 'float':
        if k != 'f':
            return f'declared float, value {nv}'
        places = 2 if line.get('raw') else line.get('places', 2)
        v = float(nv[1])
        if v == v and v not in (float('inf'), float('-inf')) and round(v, places) != v:
            return f'declared {places} places, value {nv[1]} is not rounded'
        return None
    want = {'int': 'i', 'bool': 'b', 'str': 's'}.get(t)
    if t == 'enum':
        if k == 'n':
            return None
        if k != 'e' or nv[1] != line.get('enum'):
            return f'declared enum {line.get("enum")}, value {nv}'
        return None
    if k != want:
        return f'declared {t}, value {nv}'
    if t == 'str' and nv[1].strip() == '' and nv[1] != '':
        return f'blank text stored as {nv[1]!r}, not as the empty value'
    return None


def closure_from_history(case, run):
    """Demand closure recomputed from the recorded read history of the real run:
    required(requested + forms of every line that was read) + lines read (+ explicitly
    requested lines).  Reads of another form's *inputs* must not make that form take part."""
    world = case['world']
    forms = {f['name']: f for f in world['forms']}
    part = set(run.requested)
    lines = set(run.field_names)
    for e in run.rec.events:
        if e[0] == 'RL':
            q = e[2]
            lines.add(q)
            part.add(q.split('.')[0])
    out = set(lines)
    for fi in part:
        base = fi.split(':')[0]
        if base not in forms:
            return None
        req, _ = synth.lines_of(forms[base])
        for l in req:
            out.add(f'{fi}.{l["name"]}')
    return out


# ----------------------------------------------------------------------------------
# synthetic case through `habutax solve` (habutax.main())
# ----------------------------------------------------------------------------------
def input_spec_of(world, name):
    forminst, x = name.split('.')
    base = forminst.split(':')[0]
    for f in world['forms']:
        if f['name'] == base:
            for i in f['inputs']:
                if i['name'] == x:
                    return i
    return None


def execute_cli(case, cli=None, budget=6000, names=None, path=None, solution_path=None, layout='case'):
    """Synthetic case through `habutax solve`.
    cli: {'prompt': bool, 'writeback': bool, 'solution': bool, 'garble': {str(k): [texts]},
          'interrupt': None | [k, 'ctrlc'|'eof'|'ctrlc_retry'|'eof_retry'], 'form_order': seed|None}
    names: inputs to write into the file first; False = leave the file at `path` as it is.
    Returns RealRun (+ .stdout, .file_after (text or None), .kind, .stdin_log)."""
    cli = dict(cli or {})
    classes, enums = synth.build_classes(case['world'])
    names = case['file'] if names is None else names
    d = scratch_dir()
    path = path or os.path.join(d, 'cli_in.ini')
    if names is not False:
        write_input_file(case, path=path, names=names, layout=layout)
    supplied0 = names if names is not False else cli.get('supplied0', [])
    persona = dict(case['persona'])
    asked = {}

    def answer(name):
        p = persona.get(name)
        if p is None:
            raise core.HarnessError(f'prompt for {name}, which the persona does not know')
        asked[name] = asked.get(name, 0) + 1
        if p.get('invalid') and cli.get('fickle'):
            # asked for something whose value in the file is unreadable: a user types a readable one
            spec = input_spec_of(case['world'], name)
            r_ = core.Rng(core.h64('fickle-valid', name))
            for _ in range(8):
                txt, typed = gen.render_value(r_, spec)
                if '\n' not in txt and '%' not in txt:
                    persona[name] = p = {'text': txt, 'typed': typed, 'invalid': False}
                    break
        if asked[name] > 1 and cli.get('fickle') and not p.get('invalid'):
            # asked the same question again, the user gives another (valid) answer: what counts is the last one
            spec = input_spec_of(case['world'], name)
            r_ = core.Rng(core.h64('fickle', name, asked[name]))
            for _ in range(8):
                txt, typed = gen.render_value(r_, spec)
                if typed != p['typed'] and '\n' not in txt and '%' not in txt and txt.strip() != '':
                    persona[name] = p = {'text': txt, 'typed': typed, 'invalid': False}
                    break
        return p['text']

    req = list(case['requested'])
    if cli.get('form_order') is not None:
        core.Rng(core.h64('form_order', cli['form_order'])).shuffle(req)
    cli.setdefault('prompt', case['prompt'])
    try:
        run = cli_session(synth.SYNTH_YEAR, req, path, answer, case['sched'], cli, supplied0,
                          year_forms={synth.SYNTH_YEAR: classes}, dup=case.get('dup', False), budget=budget,
                          solution_path=solution_path)
    except (core.RunTimeout, core.BudgetExceeded) as e:
        e.final_persona = persona
        raise
    run.final_persona = persona
    return run


def cli_session(year, requested, path, answer, sched, cli, supplied0, year_forms=None, dup=False, budget=6000,
                solution_path=None, cpu_s=None):
    """One `habutax solve` invocation in-process with scripted stdin."""
    d = scratch_dir()
    m = mon.Monitor(supplied=supplied0, dup_demand=dup)
    rec = seams.Recorder(budget=budget, sched_seed=sched[0], period=sched[1], monitor=m)
    garble = cli.get('garble')
    if garble is None:
        garble = {}
    interrupt = cli.get('interrupt')

    def script(k, name):
        step = {'garble': list(garble.get(name) or garble.get(str(k)) or []), 'action': 'answer'}
        if interrupt is not None and k >= interrupt[0]:
            step['action'] = interrupt[1]
        return step

    stdin = ScriptedStdin(answer, script)
    argv = ['solve', path, '--year', str(year)]
    for r in requested:
        argv += ['--form', r]
    if cli.get('prompt'):
        argv.append('--prompt-missing')
    if cli.get('writeback'):
        argv.append('--writeback-input')
    solution_path = solution_path or os.path.join(d, 'cli_solution.ini')
    if cli.get('solution'):
        if os.path.exists(solution_path) and not cli.get('keep_old_solution'):
            os.remove(solution_path)
        argv += ['--solution', solution_path]
    try:
        kind, exc, out = run_cli(argv, stdin=stdin, rec=rec, year_forms=year_forms,
                                 cpu_s=cpu_s or (3.0 if year_forms else 30.0))
    except (core.RunTimeout, core.BudgetExceeded) as e:
        e.monitor = m           # what the session did before it was cut off
        raise
    run = RealRun()
    run.rec, run.monitor, run.stdout, run.kind = rec, m, out, kind
    run.stdin_log = stdin.log
    run.stdin_calls = stdin.calls
    run.requested, run.field_names = list(requested), []
    run.prompting = bool(cli.get('prompt'))
    run.argv = argv
    if kind == 'return':
        if '\nSuccessfully solved!' in out:
            run.outcome = 'solved'
        elif '\nFailed to solve, because...' in out:
            run.outcome = 'failed'
        else:
            run.outcome = 'unknown'
        s = rec.solvers[-1] if rec.solvers else None
        if s is not None:
            try:
                run.solution = solution_dict(s.solution())
                run.solution.pop('habutax', None)
                run.unimpl = list(s.unimplemented_fields())
                run.unmet_in = {k: list(v) for k, v in s.unmet_input_dependencies().items()}
                run.unmet_f = {k: list(v) for k, v in s.unmet_field_dependencies().items()}
            except AssertionError:
                pass
        m.finish()
    else:
        run.outcome = 'abort'
        run.exc = (type(exc).__name__, str(exc)[:300])
    # what the user supplied: the file, plus the questions at which the scripted user really typed an answer (an "answer"
    # that the prompt function makes up when input ends is not one)
    typed = {name for _, name, what in stdin.log if what == 'answer'}
    run.supplied = sorted(set(supplied0) | (set(m.answered) & typed))
    try:
        with open(path, newline='') as f:
            run.file_after = f.read()
    except OSError:
        run.file_after = None
    run.solution_file = None
    if cli.get('solution') and os.path.exists(solution_path):
        with open(solution_path) as f:
            run.solution_file = f.read()
    return run


def parse_cli_solution(out):
    """The INI text `habutax solve` prints after its verdict (no --solution)."""
    import configparser
    idx = out.find('\n[')
    cfg = configparser.ConfigParser()
    if idx >= 0:
        cfg.read_string(out[idx + 1:])
    return cfg


def parse_cli_failure_text(out):
    """-> (unimplemented names, {input: [dependents]}, {field: [dependents]}) as printed"""
    unimpl, ins, flds = [], {}, {}
    mode = None
    for line in out.split('\n'):
        if line.startswith('The following fields encountered unimplemented behavior'):
            mode = 'u'
        elif line.startswith('The following inputs were needed but not supplied'):
            mode = 'i'
        elif line.startswith('The following fields were needed but unable to be produced'):
            mode = 'f'
        elif line.startswith('['):
            break
        elif mode == 'u' and line.startswith('- '):
            unimpl.append(line[2:].strip())
        elif mode in ('i', 'f') and ' (needed by: ' in line and line.endswith(')'):
            dep, rest = line.split(' (needed by: ', 1)
            (ins if mode == 'i' else flds)[dep.strip()] = [x.strip() for x in rest[:-1].split(', ')]
    return unimpl, ins, flds
