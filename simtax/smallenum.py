"""Bounded-exhaustive enumeration of small form programs (C06's quantifier: "bounded-exhaustively for small ones").

A program has k in {1,2,3} float lines on one form `f` with one float input `a`.  Each line is one of
  C       constant                         I       read input a
  L j     read line j (j may be the line itself: self-reference; j > own index: forward ref / cycle)
  S j j'  read line j, then line j'        IL j    read input a, then line j
  G j     v.get(line j, default)           N       not_implemented()
The first line is required; each other line is required or optional (an optional line is only demanded if read).
Crossed with: the names given to the lines (every permutation of a fixed name set - the names decide the natural
attempt order) and the user (input in the file / prompted and answered / prompted and refused / no prompt).
index -> case is a pure function; the space size is `size(kmax)`."""
import itertools

from . import gen

NAMES = ['1', '2a', '10']
USERS = ['file', 'answer', 'refuse', 'noprompt']


def line_choices(k):
    ch = [('C',), ('I',), ('N',)]
    for j in range(k):
        ch.append(('L', j))
        ch.append(('IL', j))
        ch.append(('G', j))
        for j2 in range(k):
            ch.append(('S', j, j2))
    return ch


def spaces(kmax):
    out = []
    for k in range(1, kmax + 1):
        ch = line_choices(k)
        n = (len(ch) ** k) * (2 ** (k - 1)) * len(list(itertools.permutations(NAMES[:k]))) * len(USERS)
        out.append((k, ch, n))
    return out


def size(kmax):
    return sum(n for _, _, n in spaces(kmax))


def case_at(index, kmax):
    for k, ch, n in spaces(kmax):
        if index < n:
            break
        index -= n
    else:
        raise IndexError(index)
    perms = list(itertools.permutations(NAMES[:k]))
    index, u = divmod(index, len(USERS))
    index, p = divmod(index, len(perms))
    index, flags = divmod(index, 2 ** (k - 1))
    picks = []
    for _ in range(k):
        index, c = divmod(index, len(ch))
        picks.append(ch[c])
    names = perms[p]

    def expr(c):
        if c[0] == 'C':
            return ['const', 1.5]
        if c[0] == 'I':
            return ['in', 'a']
        if c[0] == 'N':
            return ['notimpl']
        if c[0] == 'L':
            return ['ln', names[c[1]]]
        if c[0] == 'IL':
            return ['add', ['in', 'a'], ['ln', names[c[1]]]]
        if c[0] == 'G':
            return ['lnget', names[c[1]], 7.0]
        return ['add', ['ln', names[c[1]]], ['ln', names[c[2]]]]
    req, opt = [], []
    for j in range(k):
        l = {'name': names[j], 'type': 'float', 'expr': expr(picks[j])}
        if j == 0 or (flags >> (j - 1)) & 1:
            req.append(l)
        else:
            opt.append(l)
    world = {'enums': gen.ENUMS, 'forms': [{'name': 'f', 'kind': 'form', 'multi': False, 'seq': 0,
                                           'inputs': [{'name': 'a', 'type': 'float'}], 'required': req, 'optional': opt}]}
    user = USERS[u]
    return {'world': world, 'persona': {'f.a': {'text': '2.5', 'typed': ['f', '2.5'], 'invalid': False}},
            'file': ['f.a'] if user == 'file' else [], 'prompt': user in ('answer', 'refuse'),
            'refuse_at': 0 if user == 'refuse' else None, 'sched': [None, 0], 'requested': ['f'], 'field_names': [],
            'layout': None, 'faults': ['small-enum'], 'dup': False, 'enum': {'k': k, 'picks': [list(c) for c in picks], 'user': user}}
