"""Synthetic world: generated form programs (DESIGN.md 2.1).

A *world* is a JSON-able dict:

  {'enums': {'E1': ['alpha','beta','gamma'], 'E2': [...]},
   'forms': [ {'name','kind': 'form'|'inputform', 'multi': bool, 'seq': int,
               'inputs': [ {'name','type', 'enum'?} ],
               'required': [line], 'optional': [line]} ],
   }
  line = {'name','type': 'float'|'int'|'bool'|'str'|'enum', 'places'?, 'enum'?, 'expr': expr}

`expr` is a nested list (see `ev`).  The same pure evaluator `ev` is used by the generated
habutax line functions (reading through the real i[...] / v[...] accessors) and by the
reference model R1 (reading through its own dictionaries) - what is under test is
habutax's plumbing between the reads, not this evaluator.

`build_classes(world)` turns a world into real habutax Form / InputForm subclasses."""
from . import core

hb = core.import_habutax()
from habutax import form as hb_form          # noqa: E402
from habutax import inputs as hb_inputs      # noqa: E402
from habutax import fields as hb_fields      # noqa: E402
from habutax import enum as hb_enum          # noqa: E402
from habutax import pdf_fields as hb_pdf_fields  # noqa: E402
import os                                     # noqa: E402

TEMPLATE = os.path.join(os.path.dirname(os.path.abspath(__file__)), 'synth_template.pdf')

SYNTH_YEAR = 9999


class SynthLineError(RuntimeError):
    """What a generated line raises for the `raise` fault."""


class Raw(object):
    """A tail value that bypasses the cast to the declared type (None / blank / wrong type)."""
    __slots__ = ('kind',)

    def __init__(self, kind):
        self.kind = kind


class MyInt(int):
    pass


class MyFloat(float):
    pass


class MyStr(str):
    pass


# ----------------------------------------------------------------------------------
# pure evaluator
# ----------------------------------------------------------------------------------
def num(x):
    if isinstance(x, Raw):
        if x.kind[0] == 'none':
            return 0
        raise core.HarnessError('Raw value used in arithmetic (generator bug)')
    if x is None:
        return 0
    if x is True:
        return 1
    if x is False:
        return 0
    if isinstance(x, (int, float)):
        return x
    if isinstance(x, str):
        return len(x)
    n = getattr(x, 'name', None)       # enum member (real or refmodel.EV)
    if n is not None:
        return len(n)
    raise core.HarnessError(f'num() of {type(x)}')


def truth(x):
    if isinstance(x, Raw):
        if x.kind[0] == 'none':
            return False
        raise core.HarnessError('Raw value used as condition (generator bug)')
    if x is None:
        return False
    if isinstance(x, (bool, int, float, str)):
        return bool(x)
    return True


def text(x):
    if isinstance(x, Raw):
        return ''
    if isinstance(x, str):
        return x
    if x is None:
        return ''
    n = getattr(x, 'name', None)
    if n is not None and not isinstance(x, (int, float)):
        return n
    return str(x)


MAX_SUM = 6


def ev(e, ctx):
    op = e[0]
    if op == 'const':
        return e[1]
    if op == 'in':
        return ctx.inp(e[1])
    if op == 'ln':
        return ctx.line(e[1])
    if op == 'lnget':                   # v.get(ref, default): Mapping API of the accessor, still a read
        return ctx.line_get(e[1], e[2])
    if op == 'inget':
        return ctx.inp_get(e[1], e[2])
    if op == 'has':                     # ref in v
        return ctx.line_has(e[1])
    if op == 'thr':                     # s.threshold(name[, key]) - key is an enum-typed expression
        key = ev(e[2], ctx) if len(e) > 2 and e[2] is not None else None
        return ctx.threshold(e[1], key)
    if op == 'add':
        return num(ev(e[1], ctx)) + num(ev(e[2], ctx))
    if op == 'sub':
        return num(ev(e[1], ctx)) - num(ev(e[2], ctx))
    if op == 'mul':
        return e[1] * num(ev(e[2], ctx))
    if op == 'min':
        return min(num(ev(e[1], ctx)), num(ev(e[2], ctx)))
    if op == 'max':
        return max(num(ev(e[1], ctx)), num(ev(e[2], ctx)))
    if op == 'if':
        return ev(e[2], ctx) if truth(ev(e[1], ctx)) else ev(e[3], ctx)
    if op == 'gt':
        return num(ev(e[1], ctx)) > num(ev(e[2], ctx))
    if op == 'and':
        return truth(ev(e[1], ctx)) and truth(ev(e[2], ctx))
    if op == 'or':
        return truth(ev(e[1], ctx)) or truth(ev(e[2], ctx))
    if op == 'not':
        return not truth(ev(e[1], ctx))
    if op == 'isenum':
        x = ev(e[1], ctx)
        return x is not None and getattr(x, 'name', None) == e[2]
    if op == 'iseq':                    # x == <this form's own constant of the enumeration> (identity of members, not names)
        x = ev(e[1], ctx)
        return ctx.same_member(x, ctx.enum_member(e[2], e[3]))
    if op == 'len':
        return len(text(ev(e[1], ctx)))
    if op == 'cat':
        return text(ev(e[1], ctx)) + e[2] + text(ev(e[3], ctx))
    if op == 'enumc':
        return ctx.enum_member(e[1], e[2])
    if op == 'sum':
        cnt = int(num(ctx.inp(e[2])))
        tot = 0.0
        for n in range(min(cnt, MAX_SUM)):
            tot += num(ctx.line(f'{e[1]}:{n}.{e[3]}'))
        return tot
    if op == 'seq':
        ev(e[1], ctx)
        return ev(e[2], ctx)
    if op == 'notimpl':
        ctx.notimpl()
        return Raw(['none'])      # a not_implemented() that returns: the line goes on, as real forms would
    if op == 'raise':
        raise SynthLineError('generated line failure')
    if op in ('none', 'blank', 'wrong'):
        return Raw(e)
    raise core.HarnessError(f'unknown op {op}')


def cast(x, line):
    """Bring a non-Raw result to the line's declared Python type."""
    t = line['type']
    if t == 'float':
        return float(num(x))
    if t == 'int':
        return int(num(x))
    if t == 'bool':
        return bool(truth(x))
    if t == 'str':
        return text(x)
    if t == 'enum':
        return x
    raise core.HarnessError(t)


WRONG_KINDS = {
    'float': ['int', 'bool', 'str', 'myfloat', 'int0', 'boolF', 'myfloat0', 'tuple', 'list', 'enummember'],
    'int': ['bool', 'float', 'myint', 'str', 'boolF', 'float0', 'myint0', 'enummember'],
    'bool': ['int', 'str', 'int0', 'float0', 'enummember'],
    'str': ['int', 'float', 'bytes', 'int0', 'bytes0', 'enummember', 'list'],
    'enum': ['otherenum', 'membername', 'int', 'int0', 'boolF', 'twinenum', 'memberdesc'],
}


def raw_python_value(raw, line, ctx):
    """The actual Python object a generated line hands back for a Raw tail (real side)."""
    k = raw.kind[0]
    if k == 'none':
        return None
    if k == 'blank':
        return raw.kind[1]            # '', ' ', '\t '
    w = raw.kind[1]
    if w == 'int':
        return 3
    if w == 'bool':
        return True
    if w == 'str':
        return 'x7'
    if w == 'float':
        return 2.0
    if w == 'myfloat':
        return MyFloat(2.5)
    if w == 'myint':
        return MyInt(4)
    if w == 'bytes':
        return b'ab'
    # values of a wrong type that compare equal to an empty value (0 == 0.0 == False)
    if w == 'int0':
        return 0
    if w == 'boolF':
        return False
    if w == 'float0':
        return 0.0
    if w == 'myint0':
        return MyInt(0)
    if w == 'myfloat0':
        return MyFloat(0.0)
    if w == 'bytes0':
        return b''
    if w == 'otherenum':
        return ctx.other_enum_member(line.get('enum'))
    if w == 'membername':
        return ctx.enum_member_name(line.get('enum'))
    if w == 'twinenum':
        return ctx.twin_enum_member(line.get('enum'))
    if w == 'memberdesc':
        return list(ctx.enums[line.get('enum')])[0].value       # the description text of a choice
    if w == 'tuple':
        return ('other income', 12.5)
    if w == 'list':
        return [1.0, 2.0]
    if w == 'enummember':
        return ctx.other_enum_member(None)
    raise core.HarnessError(w)


# ----------------------------------------------------------------------------------
# turning a world into habutax classes
# ----------------------------------------------------------------------------------
class RealCtx(object):
    __slots__ = ('s', 'i', 'v', 'enums')

    def __init__(self, s, i, v, enums):
        self.s, self.i, self.v, self.enums = s, i, v, enums

    def inp(self, ref):
        return self.i[ref]

    def line(self, ref):
        return self.v[ref]

    def line_get(self, ref, default):
        return self.v.get(ref, default)

    def inp_get(self, ref, default):
        return self.i.get(ref, default)

    def line_has(self, ref):
        return ref in self.v

    def notimpl(self):
        self.s.not_implemented()

    def threshold(self, name, key):
        if key is None:
            return self.s.threshold(name)
        return self.s.threshold(name, key)

    def enum_member(self, ename, member):
        return self.enums[ename][member]

    def same_member(self, x, c):
        return x is not None and x == c

    def other_enum_member(self, ename):
        for n in sorted(self.enums):
            if n != ename:
                return list(self.enums[n])[0]
        raise core.HarnessError('no other enum')

    def enum_member_name(self, ename):
        return list(self.enums[ename])[0].name

    def twin_enum_member(self, ename):
        # a member of a *different* enumeration class that carries the same display name and member names
        real = self.enums[ename]
        twin = hb_enum.make(ename, {m.name: m.value for m in real})
        return list(twin)[0]


REGEX = '^[a-c]{2}[0-9]$'


def _make_input(spec, enums):
    t = spec['type']
    n = spec['name']
    d = f'synthetic input {n} ({t})'
    if t == 'str':
        return hb_inputs.StringInput(n, description=d)
    if t == 'bool':
        return hb_inputs.BooleanInput(n, description=d)
    if t == 'int':
        return hb_inputs.IntegerInput(n, description=d)
    if t == 'float':
        return hb_inputs.FloatInput(n, description=d)
    if t == 'enum':
        return hb_inputs.EnumInput(n, enums[spec['enum']], description=d)
    if t == 'enum_empty':
        return hb_inputs.EnumInput(n, enums[spec['enum']], allow_empty=True, description=d)
    if t == 'regex':
        return hb_inputs.RegexInput(n, REGEX, description=d)
    if t == 'ssn':
        return hb_inputs.SSNInput(n, description=d)
    raise core.HarnessError(t)


def _make_field(line, enums):
    expr = line['expr']

    def fn(s, i, v, _expr=expr, _line=line, _enums=enums):
        ctx = RealCtx(s, i, v, _enums)
        r = ev(_expr, ctx)
        if isinstance(r, Raw):
            return raw_python_value(r, _line, ctx)
        if _line.get('raw'):
            return r
        return cast(r, _line)

    t = line['type']
    n = line['name']
    if t == 'float':
        if 'places' in line:
            return hb_fields.FloatField(n, fn, places=line['places'])
        return hb_fields.FloatField(n, fn)
    if t == 'int':
        return hb_fields.IntegerField(n, fn)
    if t == 'bool':
        return hb_fields.BooleanField(n, fn)
    if t == 'str':
        return hb_fields.StringField(n, fn)
    if t == 'enum':
        return hb_fields.EnumField(n, enums[line['enum']], fn)
    raise core.HarnessError(t)


def _make_thresholds(fs, enums):
    """world spec: {'name': number} or {'name': {'enum': E, 'table': [[[members...], value], ...]}} -> habutax thresholds"""
    out = {}
    for name, t in (fs.get('thresholds') or {}).items():
        if isinstance(t, dict):
            en = enums[t['enum']]
            tab = {}
            for members, value in t['table']:
                key = en[members[0]] if len(members) == 1 else tuple(en[m] for m in members)
                tab[key] = value
            out[name] = tab
        else:
            out[name] = t
    return out


def _make_pdf_field(m):
    k = m['kind']
    if k == 'text':
        return hb_pdf_fields.TextPDFField(m['pdf_name'], m['line'], max_length=m.get('max_length'))
    if k == 'button':
        if m.get('negate'):
            return hb_pdf_fields.ButtonPDFField(m['pdf_name'], m['line'], m['true_value'], value_fn=lambda s, v, f: not v)
        return hb_pdf_fields.ButtonPDFField(m['pdf_name'], m['line'], m['true_value'])
    if k == 'choice':
        return hb_pdf_fields.ChoicePDFField(m['pdf_name'], m['line'], list(m['choices']))
    raise core.HarnessError(k)


def build_enums(world):
    return {name: hb_enum.make(name, {m: f'{name} member {m}' for m in members})
            for name, members in sorted(world['enums'].items())}


def build_classes(world):
    """-> (list of Form subclasses, enums dict)"""
    enums = build_enums(world)
    classes = []
    for fs in world['forms']:
        classes.append(_build_class(fs, enums))
    return classes, enums


def _build_class(fs, enums):
    base = hb_form.InputForm if fs['kind'] == 'inputform' else hb_form.Form

    world_enums = enums
    uses_local = 'L1' in enums and (any(i_.get('enum') == 'L1' for i_ in fs['inputs']) or
                                    any(l_.get('enum') == 'L1' for l_ in fs['required'] + fs['optional']))

    def own_enums():
        # a form that uses the local enumeration builds its own copy of the class, per instance
        if not uses_local:
            return world_enums
        return dict(world_enums, L1=hb_enum.make('L1', {m.name: m.value for m in world_enums['L1']}))

    if fs['kind'] == 'inputform':
        def __init__(self, **kwargs):
            enums = own_enums()
            ins = [_make_input(s, enums) for s in fs['inputs']]
            hb_form.InputForm.__init__(self, type(self), ins, **kwargs)
        ns = {'__init__': __init__}
    else:
        def __init__(self, **kwargs):
            enums = own_enums()
            ins = [_make_input(s, enums) for s in fs['inputs']]
            req = [_make_field(l, enums) for l in fs['required']]
            opt = [_make_field(l, enums) for l in fs['optional']]
            pdf = [_make_pdf_field(m) for m in fs.get('pdf', [])]
            hb_form.Form.__init__(self, type(self), ins, req, opt, thresholds=_make_thresholds(fs, enums),
                                  pdf_fields=pdf, pdf_file=(TEMPLATE if fs.get('pdf') else None), **kwargs)

        files = fs.get('files', 'always')

        def needs_filing(self, values):
            if files == 'always':
                return True
            if files == 'never':
                return False
            return bool(values[f'{self.name()}.{files["line"]}'])
        ns = {'__init__': __init__, 'needs_filing': needs_filing}
    ns.update({
        'form_name': fs['name'],
        'tax_year': SYNTH_YEAR,
        'description': f"Synthetic {fs['name']}",
        'long_description': f"generated form program {fs['name']}",
        'jurisdiction': hb_form.Jurisdiction.US,
        'sequence_no': fs.get('seq', 0),
    })
    if fs.get('multi'):
        ns['valid_instances'] = ['0', '1', '2']
    return type('Synth_' + ''.join(c if c.isalnum() else '_' for c in fs['name']), (base,), ns)


# line specs of an inputform mirror its inputs (what habutax.form.InputForm builds)
INPUTFORM_LINE_TYPE = {'str': 'str', 'ssn': 'str', 'bool': 'bool', 'int': 'int', 'float': 'float',
                       'enum': 'enum', 'enum_empty': 'enum'}


def lines_of(fs):
    """-> (required line specs, optional line specs) including the implied ones of an inputform"""
    if fs['kind'] == 'inputform':
        req = []
        for s in fs['inputs']:
            l = {'name': s['name'], 'type': INPUTFORM_LINE_TYPE[s['type']], 'expr': ['in', s['name']], 'raw': True}
            if 'enum' in s:
                l['enum'] = s['enum']
            req.append(l)
        return req, []
    return fs['required'], fs['optional']
