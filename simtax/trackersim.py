"""Bookkeeping histories on the real habutax.solver.DependencyTracker, checked step by step
against R2 (DESIGN.md section 4, C06 engine b).

A history is a list of ops:
  ['add', dep, waiter]   register waiter for dependency
  ['meet', dep]          mark dependency satisfied
  ['start']              start a drain (met_dependents() generator) if none is active
  ['step']               advance the active drain by one released waiter
  ['finish']             run the active drain (or a fresh one) to exhaustion
  ['query']              compare has_met / has_unmet / listings with the model (quiescent only)

protocol mode: what the solver does - no registration for a dependency after it was met and
               drains are never interleaved with other operations
free mode    : anything goes between the steps of a drain; only the conservation oracles
               that hold for *every* history are applied."""
from . import core

core.import_habutax()
from habutax import solver as hb_solver      # noqa: E402

DEPS = ['d0', 'd1', 'd2', 'd3']
WAITERS = ['w0', 'w1', 'w2', 'w3', 'w4']


class W(object):
    """a waiter token (unique object per registration is not required by the tracker)"""
    def __init__(self, n):
        self.n = n

    def name(self):
        return self.n

    def __repr__(self):
        return self.n


def gen_history(rng, mode):
    n = rng.weighted([(3, 2), (6, 3), (10, 3), (18, 3), (28, 2), (40, 1)])
    ndeps = rng.pick([1, 2, 2, 3, 4])
    nw = rng.pick([1, 2, 3, 5])
    ops = []
    met = set()
    active = False
    for _ in range(n):
        c = rng.random()
        if mode == 'protocol':
            if c < 0.45:
                cand = [d for d in DEPS[:ndeps] if d not in met]
                if cand:
                    ops.append(['add', rng.pick(cand), rng.pick(WAITERS[:nw])])
                    continue
            if c < 0.75:
                d = rng.pick(DEPS[:ndeps])
                ops.append(['meet', d])
                met.add(d)
                continue
            if c < 0.92:
                ops.append(['finish'])
                continue
            ops.append(['query'])
        else:
            if c < 0.38:
                ops.append(['add', rng.pick(DEPS[:ndeps]), rng.pick(WAITERS[:nw])])
            elif c < 0.6:
                ops.append(['meet', rng.pick(DEPS[:ndeps])])
            elif c < 0.7:
                ops.append(['start'])
            elif c < 0.85:
                ops.append(['step'])
            elif c < 0.94:
                ops.append(['finish'])
            else:
                ops.append(['query'])
    ops.append(['finish'])
    ops.append(['query'])
    return {'mode': mode, 'ops': ops}


def run_history(hist):
    """-> (findings, stats).  findings: list of (oracle, key, msg)."""
    tr = hb_solver.DependencyTracker()
    ops = hist['ops']
    finds = []
    stats = {'interleaved': 0, 'repeated_meet': 0, 'yields': 0, 'drains': 0}
    tokens = {}             # waiter name -> W (one object per name, like one Field per line)
    regs = []               # live registrations: [dep, waiter name, time]
    met_times = {}          # dep -> list of times it was met
    pending = []            # meets since the last exhausted drain
    gen = None
    drain_yields = 0
    drain_capacity = 0
    t = 0

    def bad(oracle, key, msg):
        if len(finds) < 5:
            finds.append((oracle, key, f'op {t} {ops[t] if t < len(ops) else ""}: {msg}'))

    def on_yield(w):
        nonlocal drain_yields
        stats['yields'] += 1
        drain_yields += 1
        name = w.name() if hasattr(w, 'name') else repr(w)
        # every registration uses its own token object, so the released registration is known exactly
        for r in regs:
            if r[3] is w:
                if r[0] not in pending:
                    bad('R2.early', 'released-before-met', f'{name} released although {r[0]}, which it waits for, was not met')
                regs.remove(r)
                return
        bad('R2.twice', 'released-unregistered', f'{name} released although it has no outstanding registration (released twice?)')

    def exhausted():
        nonlocal gen, pending
        gen = None
        pending = []
        stats['drains'] += 1
        # never lost: a registration followed (in time) by a meet of its dependency must be gone
        for r in regs:
            if any(mt > r[2] for mt in met_times.get(r[0], ())):
                bad('R2.lost', 'lost-waiter', f'{r[1]} registered for {r[0]} at op {r[2]}, {r[0]} met later, drain finished, still not released')
        if drain_yields > drain_capacity:
            bad('R2.len', 'drain-too-long', f'drain released {drain_yields} waiters, only {drain_capacity} registrations existed')
        if tr.has_met():
            bad('R2.hasmet', 'has-met-after-drain', 'has_met() is true right after a drain ran to exhaustion')

    def step():
        try:
            w = next(gen)
        except StopIteration:
            exhausted()
            return False
        on_yield(w)
        return True

    for t, op in enumerate(ops):
        k = op[0]
        try:
            if k == 'add':
                w = W(f'{op[2]}#{t}')
                tr.add_unmet(op[1], w)
                regs.append([op[1], w.n, t, w])
                if gen is not None:
                    stats['interleaved'] += 1
                    drain_capacity += 1
            elif k == 'meet':
                if op[1] in pending:
                    stats['repeated_meet'] += 1
                tr.meet(op[1])
                met_times.setdefault(op[1], []).append(t)
                pending.append(op[1])
            elif k == 'start':
                if gen is None:
                    gen = tr.met_dependents()
                    drain_yields = 0
                    drain_capacity = len(regs)
            elif k == 'step':
                if gen is not None:
                    step()
            elif k == 'finish':
                if gen is None:
                    gen = tr.met_dependents()
                    drain_yields = 0
                    drain_capacity = len(regs)
                n = 0
                while step():
                    n += 1
                    if n > 10000:
                        bad('R2.term', 'drain-does-not-end', 'drain released more than 10000 waiters')
                        gen = None
                        break
            elif k == 'query':
                if gen is None:
                    if tr.has_met() != bool(pending):
                        bad('R2.query', 'has-met', f'has_met()={tr.has_met()} model {bool(pending)}')
                    want_unmet = any(r[0] not in pending for r in regs)
                    if tr.has_unmet() != want_unmet:
                        bad('R2.query', 'has-unmet', f'has_unmet()={tr.has_unmet()} model {want_unmet}')
                    deps = sorted(set(r[0] for r in regs))
                    got = sorted(d for d in tr.unmet_dependencies() if len(tr.unmet_dependents(d)) > 0)
                    if got != deps:
                        bad('R2.query', 'unmet-dependencies', f'unmet_dependencies()={got} model {deps}')
                    for d in deps:
                        a = sorted(w.name() for w in tr.unmet_dependents(d))
                        b = sorted(r[1] for r in regs if r[0] == d)
                        if a != b:
                            bad('R2.query', 'unmet-dependents', f'unmet_dependents({d})={a} model {b}')
        except Exception as e:
            bad('R2.exc', f'exception-{type(e).__name__}', f'{type(e).__name__}: {e}')
            break
    return finds, stats


def shrink_history(hist, fails, max_tries=300):
    ops = list(hist['ops'])
    tries = 0
    n = 2
    while len(ops) >= 2 and tries < max_tries:
        chunk = max(1, len(ops) // n)
        removed = False
        for a in range(0, len(ops), chunk):
            cand = ops[:a] + ops[a + chunk:]
            tries += 1
            if cand and fails({'mode': hist['mode'], 'ops': cand}):
                ops = cand
                n = max(n - 1, 2)
                removed = True
                break
            if tries >= max_tries:
                break
        if not removed:
            if chunk == 1:
                break
            n = min(len(ops), n * 2)
    return {'mode': hist['mode'], 'ops': ops, 'shrunk': {'tries': tries}}
