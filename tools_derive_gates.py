"""One-off derivation of C09 gate candidates from the form sources (AST): inputs that occur in a
condition guarding a not_implemented() call.  The result is REVIEWED AND PINNED in
catalogues/gates_<year>.json; checks never re-derive it (deleting or inverting a gate in /repo must
not also delete it from the oracle)."""
import ast
import inspect
import json
import sys

sys.path.insert(0, '/verif')
from simtax import core, shipped  # noqa


def names_in(test, negated=False):
    """yield (input ref, polarity) for i['x'] subscripts in a condition; polarity True = affirmative answer triggers"""
    if isinstance(test, ast.UnaryOp) and isinstance(test.op, ast.Not):
        yield from names_in(test.operand, not negated)
    elif isinstance(test, ast.BoolOp):
        for v in test.values:
            yield from names_in(v, negated)
    elif isinstance(test, ast.Subscript):
        if isinstance(test.value, ast.Name) and test.value.id in ('i', 'inputs') and isinstance(test.slice, ast.Constant) \
                and isinstance(test.slice.value, str):
            yield test.slice.value, (not negated), 'bool'
    elif isinstance(test, ast.Compare):
        for sub in ast.walk(test):
            if isinstance(sub, ast.Subscript) and isinstance(sub.value, ast.Name) and sub.value.id in ('i', 'inputs') \
                    and isinstance(sub.slice, ast.Constant) and isinstance(sub.slice.value, str):
                yield sub.slice.value, None, 'compare'
    else:
        for sub in ast.walk(test):
            if isinstance(sub, ast.Subscript) and isinstance(sub.value, ast.Name) and sub.value.id in ('i', 'inputs') \
                    and isinstance(sub.slice, ast.Constant) and isinstance(sub.slice.value, str):
                yield sub.slice.value, None, 'other'


def derive(year):
    out = {}
    for fname, f in sorted(shipped.catalogue(year).items()):
        src = inspect.getsource(sys.modules[f['cls'].__module__])
        tree = ast.parse(src)
        parents = {}
        for node in ast.walk(tree):
            for ch in ast.iter_child_nodes(node):
                parents[ch] = node
        for node in ast.walk(tree):
            if isinstance(node, ast.Call) and isinstance(node.func, ast.Attribute) and node.func.attr in ('not_implemented', 'not_implmented'):
                cur = node
                while cur in parents:
                    par = parents[cur]
                    if isinstance(par, ast.If):
                        in_body = any(cur is b or cur in ast.walk(b) for b in par.body)
                        for ref, pol, kind in names_in(par.test):
                            if pol is not None and not in_body:
                                pol = not pol
                            key = ref if '.' in ref else f'{fname}.{ref}'
                            out.setdefault(key, []).append({'polarity': pol, 'kind': kind, 'line': node.lineno, 'in': fname})
                    elif isinstance(par, ast.IfExp):
                        in_body = cur is par.body or cur in ast.walk(par.body)
                        if cur is not par.test and cur not in ast.walk(par.test):
                            for ref, pol, kind in names_in(par.test):
                                if pol is not None and not in_body:
                                    pol = not pol
                                key = ref if '.' in ref else f'{fname}.{ref}'
                                out.setdefault(key, []).append({'polarity': pol, 'kind': kind, 'line': node.lineno, 'in': fname})
                    elif isinstance(par, (ast.FunctionDef, ast.Lambda)):
                        break
                    cur = par
    return out


if __name__ == '__main__':
    for y in shipped.YEARS:
        d = derive(y)
        print(y, len(d))
        json.dump(d, open(f'/tmp/gate_candidates_{y}.json', 'w'), indent=1, sort_keys=True)


EXCLUDE = {
    # compound conditions or supported situations - reviewed by hand (DESIGN.md section 4 / C09)
    '1040.ira_exception1_you', '1040.ira_exception2_you', '1040.ira_exception3_you',
    '1040.ira_exception1_spouse', '1040.ira_exception2_spouse', '1040.ira_exception3_spouse',
    '1040_s1.hsa_contribution_you', '1040_s1.hsa_contribution_spouse', '8606.part_3_needed',
    '8889.hdhp_plan_family', '8889:spouse.hdhp_plan_family', '1040.filing_status',
}
MANUAL = {
    # gates that do not go through not_implemented(): the schedule they lead to is deliberately absent
    '1040.need_8962': {'polarity': True, 'readers': ['1040'], 'why': 'leads to Schedule 2, which is not in the catalogue (unsupported form)'},
    # IRA -> HSA funding distribution: also occurs in the 'more than one exception' sum (a comparison), which made the
    # automatic rule skip it; reviewed: whenever lines 4a/4b consult it and it is yes, they refuse
    '1040.ira_exception4_you': {'polarity': True, 'readers': ['1040'], 'why': 'HSA funding distribution is not implemented'},
    '1040.ira_exception4_spouse': {'polarity': True, 'readers': ['1040'], 'why': 'HSA funding distribution is not implemented'},
    # gates on a statement (W-2, 1099-R) that Form 1040 consults through the statement's LINE of the same name (v[...], not
    # i[...]): consulted = a line of a reader form read that line; reviewed by hand in all years that have the input
    'w-2.box_13_statutory': {'polarity': True, 'readers': ['1040'], 'via_line': True, 'why': 'statutory employees are not implemented (Form 1040 line 1)'},
    '1099-r.box_2b_taxable_not_determined': {'polarity': True, 'readers': ['1040'], 'via_line': True,
                                             'why': 'pension with undetermined taxable amount is not implemented (lines 5a/5b); only consulted for non-IRA distributions'},
}


def pin():
    for y in shipped.YEARS:
        d = derive(y)
        gates = {}
        for key, occ in sorted(d.items()):
            if key in EXCLUDE:
                continue
            pols = {o['polarity'] for o in occ if o['kind'] == 'bool'}
            if any(o['kind'] != 'bool' for o in occ) or len(pols) != 1 or None in pols:
                continue
            gates[key] = {'polarity': pols.pop(), 'readers': sorted({o['in'] for o in occ})}
        for k, v in MANUAL.items():
            if k.split('.')[1] in shipped.catalogue(y)[k.split('.')[0]]['inputs']:
                gates[k] = v
        limits = {
            'foreign_tax_1116': {'reader_line': '1040_s3.1', 'threshold': {'MarriedFilingJointly': 600.0, 'other': 300.0}},
            'schedule_b_rows': {'reader_line': '1040_sb.part_3', 'max_payers': 14},
            'educator_expenses': {'reader_line': '1040_s1.11', 'input': '1040_s1.educator_expenses', 'cap': 500.0},
            # Form 8889: own contributions above (limit for the coverage type - employer contributions) are refused
            # (published limits: Rev. Proc. 2020-32 / 2021-25 / 2022-24)
            'hsa_contribution': {'reader_line_suffix': '.hsa_deduction', 'input_suffix': '.hsa_contributions',
                                 'employer_suffix': '.employer_contribution', 'family_suffix': '.hdhp_plan_family',
                                 'limit': {2021: {'self': 3600.0, 'family': 7200.0}, 2022: {'self': 3650.0, 'family': 7300.0},
                                           2023: {'self': 3850.0, 'family': 7750.0}}[y]},
        }
        json.dump({'year': y, 'derived_from_repo_commit': core.git_head(core.REPO), 'gates': gates, 'limits': limits},
                  open(f'/verif/catalogues/gates_{y}.json', 'w'), indent=1, sort_keys=True)
        print(y, len(gates), 'gates pinned')


if __name__ == '__main__' and len(sys.argv) > 1 and sys.argv[1] == 'pin':
    pin()
