"""One-off: pin which line each PDF box is mapped to, and the length limits and choice lists the PDF mappings of the shipped forms declare (unchanged tree), so that
C19's oracle does not have to trust the live mapping objects for them.  Writes catalogues/pdf_limits_<year>.json."""
import json
import sys

sys.path.insert(0, '/verif')
from simtax import core, shipped  # noqa

for y in shipped.YEARS:
    out = {}
    mapping = {}
    for fname, f in sorted(shipped.catalogue(y).items()):
        obj = f['cls'](instance=(f['instances'][0] if f['instances'] else None))
        lim = {}
        for pf in obj.pdf_fields():
            ent = {}
            if getattr(pf, 'max_length', None) is not None:
                ent['max_length'] = pf.max_length
            if getattr(pf, '_choices', None) is not None:
                ent['choices'] = list(pf._choices)
            if ent:
                lim[pf.pdf_field_name] = ent
        if lim:
            out[fname] = lim
        mp = {pf.pdf_field_name: pf.field_name for pf in obj.pdf_fields()}
        if mp:
            mapping[fname] = mp
    json.dump({'year': y, 'derived_from_repo_commit': core.git_head(core.REPO), 'limits': out, 'mapping': mapping},
              open(f'/verif/catalogues/pdf_limits_{y}.json', 'w'), indent=1, sort_keys=True)
    print(y, {k: len(v) for k, v in out.items()})
