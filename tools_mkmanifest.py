import json
NA = {
 'C02': 'pure function of (year, inputs) compared with text from the PDF templates: no schedule, fault, crash point or history in the statement, so nothing for a simulator to decide (DESIGN.md 4/C02)',
 'C07': 'figure_tax(amount, status) is a pure table/formula; deciding it is exhaustive enumeration against an independent table, not simulation (DESIGN.md 4/C07)',
 'C08': 'constant statutory data compared with published values; nothing executes over time or under faults (DESIGN.md 4/C08)',
 'C10': 'quantifies statically over all syntactic paths of the form definitions; a simulator only sees executed paths (DESIGN.md 4/C10)',
 'C15': 'algebraic relation between lines of one pure evaluation; no fault or interleaving can break or expose it (DESIGN.md 4/C15)',
 'C16': 'metamorphic relations between two pure evaluations on transformed inputs; input transformation, not scheduling (DESIGN.md 4/C16)',
 'C17': 'finite static enumeration of form classes and threshold tables (DESIGN.md 4/C17)',
 'C18': 'static comparison of mapping tables with the field trees of the bundled PDFs (DESIGN.md 4/C18)',
}
import sys
sys.path.insert(0,'/verif')
checks=[]
import importlib, os
for pid in ['C01','C03','C04','C05','C06','C09','C11','C12','C13','C14','C19','C20']:
    if not os.path.exists(f'/verif/simtax/props/{pid.lower()}.py'): continue
    src=open(f'/verif/simtax/props/{pid.lower()}.py').read()
    ns={}
    # light-weight: pull MANIFEST dict literal from module without importing habutax
    import ast
    tree=ast.parse(src)
    man=None
    for node in tree.body:
        if isinstance(node, ast.Assign) and getattr(node.targets[0],'id',None)=='MANIFEST':
            man=ast.literal_eval(node.value)
    if man is None: continue
    checks.append({
      'property_id': pid,
      'quick_cmd': f'./check {pid} --tier quick',
      'thorough_cmd': f'./check {pid} --tier thorough',
      'evidence_file': f'/verif/evidence/{pid}.json',
      'replay_cmd_template': f'./check {pid} --replay {{path}}',
      'engine': 'simtax',
      'level_claimed': {'category': man['level'], 'text': man['text'], 'design_ref': f'DESIGN.md section 4, {pid}'},
      'level_note': man['note'],
      'technique': man['technique'],
    })
claimed={c['property_id'] for c in checks}
pending=[p for p in ['C01','C03','C04','C05','C06','C09','C11','C12','C13','C14','C19','C20'] if p not in claimed]
na=[{'property_id':k,'reason':v} for k,v in NA.items()]
for p in pending:
    na.append({'property_id':p,'reason':'check under construction in this session (planned as deterministic simulation, DESIGN.md section 4); not claimed until its check is committed'})
m={
 'version':1,
 'setup_cmd':'./setup.sh',
 'hooks':{'guard':'HABUTAX_VERIF','enable':'no hooks are needed: every seam is a module/class attribute habutax looks up at call time (DESIGN.md section 1); the guard name is reserved and nothing in /repo reads it',
          'baseline_off_cmd':'cd /repo && /venv/bin/python -m pytest -ra -q -p no:cacheprovider --timeout=900 --continue-on-collection-errors',
          'source_commits':[], 'add_only':True},
 'engines':[{'name':'simtax','path':'/verif/simtax','serves_properties':sorted(claimed),
             'kind_free_text':'deterministic simulation with fault injection: seeded scheduler bound at habutax.solver.sort_keys, scripted user/stdin, real input files, generated form programs and simulated taxpayers on the shipped forms, fake pdftk; reference-model and history oracles; one integer (VERIF_SEED) decides every run; failures minimised to replay files'}],
 'checks':checks,
 'not_applicable':sorted(na,key=lambda x:x['property_id']),
 'notes':'See DESIGN.md. Exit codes of ./check: 0 held, 1 VIOLATION, 2 harness error. known_findings.json lists findings/fixed entries.',
}
json.dump(m,open('/verif/MANIFEST.json','w'),indent=1)
print('claimed',sorted(claimed),'pending',pending)
