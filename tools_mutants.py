"""./selftest mutants [ID...] - apply each mutant of mutants/mutants.py to a scratch copy of /repo (outside /repo and /verif),
confirm that the repository's own test suite still passes on it, run the quick check of the property it is listed
under, and report whether it was caught (exit 1 with a VIOLATION line).  Writes mutants/RESULTS.json."""
import json
import os
import shutil
import subprocess
import sys
import time

sys.path.insert(0, '/verif')
from mutants.mutants import M  # noqa

VERIF = '/verif'


def sh(cmd, cwd=None, env=None, timeout=1500):
    e = dict(os.environ)
    if env:
        e.update(env)
    p = subprocess.run(cmd, shell=True, cwd=cwd, env=e, capture_output=True, text=True, timeout=timeout)
    return p.returncode, p.stdout + p.stderr


def main():
    want = set(a.upper() for a in sys.argv[1:])
    results = []
    for mu in M:
        if want and mu['property'] not in want and mu['id'] not in want:
            continue
        d = f'/tmp/mutrun_{os.getpid()}'
        shutil.rmtree(d, ignore_errors=True)
        sh(f'git -C /repo worktree add -q --detach {d} HEAD')
        try:
            path = os.path.join(d, mu['file'])
            src = open(path).read()
            if mu['old'] not in src:
                results.append(dict(id=mu['id'], property=mu['property'], status='stale (text not found)', what=mu['what']))
                print(f"{mu['id']} {mu['property']}: STALE - text to replace not found")
                continue
            open(path, 'w').write(src.replace(mu['old'], mu['new'], 1))
            try:
                rc, sout = sh('timeout 120 /venv/bin/python -m pytest -q -p no:cacheprovider --timeout=60 --continue-on-collection-errors 2>&1 | tail -1', cwd=d, timeout=200)
            except subprocess.TimeoutExpired:
                sout = 'suite timed out'
            suite_ok = '55 passed' in sout and '4 errors' in sout
            t0 = time.time()
            rc, out = sh(f"./check {mu['property']} --no-evidence", cwd=VERIF, env={'HABUTAX_REPO': d})
            first = next((l.strip() for l in out.split('\n') if l.startswith('  ')), '')
            status = 'caught' if rc == 1 else ('harness-error' if rc == 2 else 'not-caught')
            ok = (status == mu['expect'])
            replay = None
            if status == 'caught' and os.environ.get('MUTANT_REPLAY', '1') == '1':
                rp = next((l.split('replay=')[1].strip() for l in out.split('\n') if l.startswith('VIOLATION')), None)
                if rp:
                    r1, _ = sh(f"./check {mu['property']} --replay {rp}", cwd=VERIF, env={'HABUTAX_REPO': d})
                    r0, _ = sh(f"./check {mu['property']} --replay {rp}", cwd=VERIF)
                    replay = {'with_mutant_exit': r1, 'on_clean_tree_exit': r0}
                    if r1 != 1 or r0 != 0:
                        ok = False
            results.append(dict(id=mu['id'], property=mu['property'], what=mu['what'], suite_still_passes=suite_ok, status=status,
                                expected=mu['expect'], as_expected=ok, replay=replay, first_finding=first[:300], wall_s=round(time.time() - t0, 1)))
            print(f"{mu['id']} {mu['property']}: {status:13s} suite={'ok' if suite_ok else 'FAILS: ' + sout.strip()[:80]} {'' if ok else '<== UNEXPECTED'} replay={replay} {first[:110]}", flush=True)
        finally:
            sh(f'git -C /repo worktree remove --force {d}')
            shutil.rmtree(d, ignore_errors=True)
    if len(results) == len(M):
        json.dump({'results': results}, open(os.path.join(VERIF, 'mutants', 'RESULTS.json'), 'w'), indent=1)
    bad = [r for r in results if not r.get('as_expected', False)]
    print(f'{len(results)} mutants, {len(bad)} not as expected')
    return 1 if bad else 0


if __name__ == '__main__':
    sys.exit(main())
