"""Ingest and evaluate seeded changes written by independent sub-agents.

  python3 tools_seeded.py ingest <prop> <a|b>     verify (suite still passes, demo fails with / passes without), copy to
                                                 seeded/<PROP>-<x>/, run the property's quick check (and optionally all checks)
                                                 against a scratch copy of /repo with the patch applied, write meta.json
  python3 tools_seeded.py run <seeded-id> [ID...] re-run checks against a stored seeded change
Scratch copies live under /tmp and are removed afterwards; /repo itself is never modified."""
import json
import os
import shutil
import subprocess
import sys
import time

VERIF = '/verif'
ALL = ['C01', 'C03', 'C04', 'C05', 'C06', 'C09', 'C11', 'C12', 'C13', 'C14', 'C19', 'C20']


def sh(cmd, cwd=None, env=None, timeout=1500):
    e = dict(os.environ)
    if env:
        e.update(env)
    p = subprocess.run(cmd, shell=True, cwd=cwd, env=e, capture_output=True, text=True, timeout=timeout)
    return p.returncode, p.stdout + p.stderr


def scratch_with_patch(patch):
    d = f'/tmp/seedrun_{os.getpid()}_{int(time.time()*1000)%100000}'
    if os.path.exists(d):
        shutil.rmtree(d)
    rc, out = sh(f'git -C /repo worktree add -q --detach {d} HEAD')
    if rc != 0:
        raise SystemExit('worktree add failed: ' + out)
    rc, out = sh(f'git apply {patch}', cwd=d)
    if rc != 0:
        remove(d)
        raise SystemExit('patch does not apply: ' + out)
    return d


def remove(d):
    sh(f'git -C /repo worktree remove --force {d}')
    shutil.rmtree(d, ignore_errors=True)


def run_checks(d, ids, scale=None):
    res = {}
    for pid in ids:
        t0 = time.time()
        rc, out = sh(f'./check {pid} --no-evidence' + (f' --scale {scale}' if scale else ''), cwd=VERIF, env={'HABUTAX_REPO': d})
        lines = [l for l in out.split('\n') if l.startswith('  ') or l.startswith('VIOLATION') or l.startswith('HARNESS')]
        res[pid] = {'exit': rc, 'wall_s': round(time.time() - t0, 1), 'lines': lines[:8]}
        print(f'   {pid}: exit={rc} {lines[:2]}', flush=True)
    return res


def ingest(prop, x, all_checks=True, root=None, name=None):
    src = f'{root or "/tmp/wt_" + prop.lower()}/SEEDED/{x}'
    patch, demo = f'{src}/patch.diff', f'{src}/demo.py'
    sid = f'{prop.upper()}-{name or x}'
    print(f'== {sid}')
    # 1. clean tree: demo passes
    clean = f'/tmp/seedclean_{os.getpid()}'
    sh(f'git -C /repo worktree add -q --detach {clean} HEAD')
    rc0, out0 = sh(f'/venv/bin/python -W ignore {demo}', cwd=clean, env={'HABUTAX_ROOT': clean})
    remove(clean)
    d = scratch_with_patch(patch)
    try:
        rc1, out1 = sh(f'/venv/bin/python -W ignore {demo}', cwd=d, env={'HABUTAX_ROOT': d})
        rct, outt = sh('/venv/bin/python -m pytest -q -p no:cacheprovider --continue-on-collection-errors 2>&1 | tail -1', cwd=d)
        ok = rc0 == 0 and rc1 == 1 and '55 passed' in outt and '4 errors' in outt
        print(f'   demo clean={rc0} patched={rc1} suite: {outt.strip()}  => {"confirmed" if ok else "NOT CONFIRMED"}')
        meta = {'id': sid, 'breaks_property': prop.upper(), 'confirmed': ok,
                'demo_exit_clean_tree': rc0, 'demo_exit_with_change': rc1, 'suite_with_change': outt.strip(),
                'demo_output_with_change': out1[-600:],
                'what_i_ran': [f'git worktree of /repo HEAD + git apply patch.diff under /tmp; HABUTAX_ROOT=<dir> /venv/bin/python demo.py',
                               'cd <dir> && /venv/bin/python -m pytest -q -p no:cacheprovider --continue-on-collection-errors',
                               'HABUTAX_REPO=<dir> ./check <ID> --no-evidence   (quick tier) for the IDs under "checks"']}
        notes = open(f'{src}/notes.md').read() if os.path.exists(f'{src}/notes.md') else ''
        meta['needs_to_manifest'] = notes[:1500]
        if ok:
            ids = [prop.upper()] + ([p for p in ALL if p != prop.upper()] if all_checks else [])
            meta['checks'] = run_checks(d, ids)
            meta['caught_by'] = [p for p, r in meta['checks'].items() if r['exit'] == 1]
            meta['harness_error_in'] = [p for p, r in meta['checks'].items() if r['exit'] == 2]
            print(f'   caught by: {meta["caught_by"]}   harness errors: {meta["harness_error_in"]}')
        dst = f'{VERIF}/seeded/{sid}'
        os.makedirs(dst, exist_ok=True)
        for f in ('patch.diff', 'demo.py', 'notes.md'):
            if os.path.exists(f'{src}/{f}'):
                shutil.copy(f'{src}/{f}', f'{dst}/{f}')
        json.dump(meta, open(f'{dst}/meta.json', 'w'), indent=1)
    finally:
        remove(d)
    return meta


def rerun(sid, ids):
    dst = f'{VERIF}/seeded/{sid}'
    d = scratch_with_patch(f'{dst}/patch.diff')
    try:
        meta = json.load(open(f'{dst}/meta.json'))
        res = run_checks(d, ids or [meta['breaks_property']])
        meta.setdefault('checks', {}).update(res)
        meta['caught_by'] = [p for p, r in meta['checks'].items() if r['exit'] == 1]
        meta['harness_error_in'] = [p for p, r in meta['checks'].items() if r['exit'] == 2]
        json.dump(meta, open(f'{dst}/meta.json', 'w'), indent=1)
        print(f'   caught by: {meta["caught_by"]}')
    finally:
        remove(d)


if __name__ == '__main__':
    if sys.argv[1] == 'ingest':
        root = sys.argv[sys.argv.index('--root') + 1] if '--root' in sys.argv else None
        name = sys.argv[sys.argv.index('--as') + 1] if '--as' in sys.argv else None
        ingest(sys.argv[2], sys.argv[3], all_checks=('--only' not in sys.argv), root=root, name=name)
    elif sys.argv[1] == 'run':
        rerun(sys.argv[2], sys.argv[3:])
