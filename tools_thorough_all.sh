#!/bin/bash
# run every thorough tier once (used with `vp run`); prints one summary line per property
cd "$(dirname "$0")"
for p in ${*:-C01 C03 C04 C05 C06 C09 C11 C12 C13 C14 C19 C20}; do
  ./check $p --tier thorough --no-evidence 2>&1 | grep -v "^  \|tier=thorough" | tail -4
done
